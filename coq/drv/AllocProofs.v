(** Proofs about the device-memory model Alloc.v (property C10). *)
From Coq Require Import List NArith Bool Arith Lia ZifyN ZifyNat ZifyBool Permutation.
From RecordUpdate Require Import RecordSet.
Import ListNotations RecordSetNotations.
From VLib Require Import ListX.
From VDrv Require Import Alloc.
Open Scope N_scope.

(** * Arithmetic on page-aligned addresses *)
Lemma aligned_step ps a b : 0 < ps -> (ps | a) -> (ps | b) -> a < b -> a + ps <= b.
Proof.
  intros Hps [x Hx] [y Hy] Hlt. subst.
  assert (x < y) by nia. nia.
Qed.

Lemma aligned_add ps a : (ps | a) -> (ps | a + ps).
Proof. intros H. apply N.divide_add_r; auto. apply N.divide_refl. Qed.

Lemma aligned_mul ps n : (ps | n * ps).
Proof. apply N.divide_factor_r. Qed.

(** * Association lists *)
Lemma keqb_eq a b : keqb a b = true <-> a = b.
Proof.
  destruct a, b; unfold keqb; cbn. rewrite andb_true_iff, !N.eqb_eq.
  split; [intros [-> ->]; auto | intros H; inversion H; auto].
Qed.

Lemma keqb_refl a : keqb a a = true.
Proof. apply keqb_eq; auto. Qed.

Section AListFacts.
  Context {K V : Type} (eqb : K -> K -> bool) (eqb_eq : forall a b, eqb a b = true <-> a = b).

  Lemma eqb_neq a b : eqb a b = false <-> a <> b.
  Proof. rewrite <- eqb_eq. destruct (eqb a b); intuition congruence. Qed.

  Lemma amem_true_iff (k : K) (l : list (K * V)) : amem eqb k l = true <-> In k (map fst l).
  Proof.
    unfold amem. induction l as [|[k' v] l IH]; cbn; [intuition congruence|].
    destruct (eqb k k') eqn:E.
    - apply eqb_eq in E. subst. intuition.
    - apply eqb_neq in E. rewrite IH. intuition congruence.
  Qed.

  Lemma amem_false_iff (k : K) (l : list (K * V)) : amem eqb k l = false <-> ~ In k (map fst l).
  Proof. rewrite <- amem_true_iff. destruct (amem eqb k l); intuition congruence. Qed.

  Lemma alookup_In (k : K) (v : V) l : alookup eqb k l = Some v -> In (k, v) l.
  Proof.
    induction l as [|[k' v'] l IH]; cbn; [congruence|].
    destruct (eqb k k') eqn:E; [apply eqb_eq in E; subst; intros H; inversion H; auto | auto].
  Qed.

  Lemma alookup_amem (k : K) (v : V) l : alookup eqb k l = Some v -> amem eqb k l = true.
  Proof. unfold amem. intros ->. auto. Qed.

  Lemma In_alookup (k : K) (v : V) l : NoDup (map fst l) -> In (k, v) l -> alookup eqb k l = Some v.
  Proof.
    induction l as [|[k' v'] l IH]; cbn; [tauto|]. intros Hn [H|H].
    - inversion H; subst. rewrite (proj2 (eqb_eq k k) eq_refl). auto.
    - inversion Hn; subst. destruct (eqb k k') eqn:E; [|auto].
      apply eqb_eq in E; subst. exfalso. apply H2. apply (in_map fst) in H. auto.
  Qed.

  Lemma aset_fresh (k : K) (v : V) l : amem eqb k l = false -> aset eqb k v l = l ++ [(k, v)].
  Proof.
    unfold amem. induction l as [|[k' v'] l IH]; cbn; auto.
    destruct (eqb k k') eqn:E; [congruence|]. intros H. rewrite IH; auto.
  Qed.

  Lemma aset_split (k : K) (v : V) l : amem eqb k l = true ->
    exists l1 old l2, l = l1 ++ (k, old) :: l2 /\ aset eqb k v l = l1 ++ (k, v) :: l2 /\ ~ In k (map fst l1).
  Proof.
    unfold amem. induction l as [|[k' v'] l IH]; cbn; [congruence|].
    destruct (eqb k k') eqn:E.
    - apply eqb_eq in E; subst. intros _. exists [], v', l. cbn; auto.
    - intros H. destruct (IH H) as (l1 & old & l2 & -> & -> & Hn).
      exists ((k', v') :: l1), old, l2. cbn. repeat split; auto.
      apply eqb_neq in E. intuition.
  Qed.

  Lemma alookup_split (k : K) (v : V) l : alookup eqb k l = Some v ->
    exists l1 l2, l = l1 ++ (k, v) :: l2 /\ ~ In k (map fst l1).
  Proof.
    induction l as [|[k' v'] l IH]; cbn; [congruence|].
    destruct (eqb k k') eqn:E.
    - apply eqb_eq in E; subst. intros H; inversion H; subst. exists [], l. cbn; auto.
    - intros H. destruct (IH H) as (l1 & l2 & -> & Hn).
      exists ((k', v') :: l1), l2. cbn. split; auto. apply eqb_neq in E. intuition.
  Qed.

  Lemma adel_notin (k : K) (l : list (K * V)) : ~ In k (map fst l) -> adel eqb k l = l.
  Proof.
    induction l as [|[k' v'] l IH]; cbn; auto. intros H.
    destruct (eqb k k') eqn:E; [apply eqb_eq in E; subst; tauto|]. rewrite IH; auto.
  Qed.

  Lemma adel_split (k : K) (v : V) l1 l2 :
    ~ In k (map fst l1) -> ~ In k (map fst l2) -> adel eqb k (l1 ++ (k, v) :: l2) = l1 ++ l2.
  Proof.
    induction l1 as [|[k' v'] l1 IH]; cbn; intros H1 H2.
    - rewrite (proj2 (eqb_eq k k) eq_refl). apply adel_notin; auto.
    - destruct (eqb k k') eqn:E; [apply eqb_eq in E; subst; tauto|]. rewrite IH; auto.
  Qed.

  Lemma alookup_aset (k k' : K) (v : V) l :
    alookup eqb k' (aset eqb k v l) = if eqb k' k then Some v else alookup eqb k' l.
  Proof.
    induction l as [|[k2 v2] l IH]; cbn.
    - destruct (eqb k' k); auto.
    - destruct (eqb k k2) eqn:E; cbn.
      + apply eqb_eq in E; subst. destruct (eqb k' k2); auto.
      + destruct (eqb k' k2) eqn:E2.
        * apply eqb_eq in E2; subst. destruct (eqb k2 k) eqn:E3; auto.
          apply eqb_eq in E3; subst. rewrite (proj2 (eqb_eq k k) eq_refl) in E. congruence.
        * apply IH.
  Qed.

  Lemma aset_In (k : K) (v : V) l x : In x (aset eqb k v l) -> x = (k, v) \/ In x l.
  Proof.
    induction l as [|[k2 v2] l IH]; cbn; [intuition|].
    destruct (eqb k k2); cbn; intuition.
  Qed.

  Lemma alookup_adel_other (k k' : K) (l : list (K * V)) : k' <> k ->
    alookup eqb k' (adel eqb k l) = alookup eqb k' l.
  Proof.
    intros Hne. induction l as [|[k2 v2] l IH]; cbn; auto.
    destruct (eqb k k2) eqn:E; cbn.
    - apply eqb_eq in E; subst. rewrite IH. destruct (eqb k' k2) eqn:E2; auto. apply eqb_eq in E2. congruence.
    - rewrite IH. auto.
  Qed.

  Lemma adel_In (k : K) (l : list (K * V)) x : In x (adel eqb k l) -> In x l /\ fst x <> k.
  Proof.
    induction l as [|[k2 v2] l IH]; cbn; [tauto|].
    destruct (eqb k k2) eqn:E.
    - intros H. apply IH in H. intuition.
    - cbn. intros [H|H]; [subst; cbn; apply eqb_neq in E; intuition|]. apply IH in H. intuition.
  Qed.
End AListFacts.

Lemma Neqb_eq' : forall a b : N, (a =? b) = true <-> a = b.
Proof. intros. apply N.eqb_eq. Qed.

(** * Lists: upd_nth *)
Lemma upd_nth_length {A} i (x : A) l : length (upd_nth i x l) = length l.
Proof. revert i; induction l; destruct i; cbn; auto. Qed.

Lemma nth_upd_nth_same {A} i (x : A) l : (i < length l)%nat -> nth_error (upd_nth i x l) i = Some x.
Proof. revert i; induction l; destruct i; cbn; intros; try lia; auto. apply IHl. lia. Qed.

Lemma nth_upd_nth_other {A} i j (x : A) l : i <> j -> nth_error (upd_nth i x l) j = nth_error l j.
Proof. revert i j; induction l; destruct i, j; cbn; intros; try congruence; auto. Qed.

Lemma nth_error_lt {A} (l : list A) i x : nth_error l i = Some x -> (i < length l)%nat.
Proof. intros H. apply nth_error_Some. congruence. Qed.

Lemma Forall_upd_nth {A} (P : A -> Prop) i x l : Forall P l -> P x -> Forall P (upd_nth i x l).
Proof.
  intros H Hx. revert i. induction H; destruct i; cbn; auto.
Qed.

Ltac splits := repeat match goal with |- _ /\ _ => split end.

(** * Devices *)
Definition is_free (ps : N) (d : dev) (p : N) : Prop :=
  (d_lo d <= p < d_hi d /\ (ps | p)) \/ In p (d_tail d).

Definition dev_wf (ps : N) (d : dev) : Prop :=
  (ps | d_base d) /\ (ps | d_size d) /\ (ps | d_lo d) /\ d_base d <= d_lo d /\ d_lo d <= d_hi d /\
  NoDup (d_tail d) /\ Forall (fun p => (ps | p) /\ d_base d <= p < d_lo d) (d_tail d).

(** handed out and not given back *)
Definition taken (d : dev) (p : N) : Prop := d_base d <= p < d_lo d /\ ~ In p (d_tail d).

Definition same_geom (d d' : dev) : Prop := d_base d' = d_base d /\ d_size d' = d_size d.

Lemma d_hi_geom d d' : same_geom d d' -> d_hi d' = d_hi d.
Proof. unfold same_geom, d_hi. intros [-> ->]. auto. Qed.

Lemma dev_pop_spec ps d p d' : 0 < ps -> dev_wf ps d -> dev_pop ps d = Some (p, d') ->
  dev_wf ps d' /\ same_geom d d' /\ (ps | p) /\ is_free ps d p /\ taken d' p /\
  d_kind d' = d_kind d /\ d_members d' = d_members d /\ d_next d' = d_next d /\
  (forall q, taken d q -> taken d' q /\ q <> p) /\
  (forall q, is_free ps d' q -> is_free ps d q /\ q <> p).
Proof.
  intros Hps (Hb & Hs & Hl & Hbl & Hlh & Hnd & Hf) Hpop. unfold dev_pop in Hpop.
  assert (Hhi : (ps | d_hi d)) by (apply N.divide_add_r; auto).
  destruct (d_lo d <? d_hi d) eqn:E.
  - inversion Hpop; subst; clear Hpop. apply N.ltb_lt in E.
    pose proof (aligned_step ps _ _ Hps Hl Hhi E) as Hstep.
    unfold dev_wf, same_geom, taken, is_free, d_hi in *. cbn.
    splits; auto; try lia.
    + apply aligned_add; auto.
    + eapply Forall_impl; [|exact Hf]. cbn. intros a [? ?]. split; auto. lia.
    + left. split; auto. lia.
    + intros Hin. rewrite Forall_forall in Hf. apply Hf in Hin. lia.
    + intros q [? ?]. repeat split; auto; lia.
    + intros q Hq. split.
      * destruct Hq as [[? ?]|?]; [left; split; auto; lia|right; auto].
      * intros ->. destruct Hq as [[? ?]|Hin]; [lia|]. rewrite Forall_forall in Hf. apply Hf in Hin. lia.
  - destruct (d_tail d) as [|p0 r] eqn:Et; [congruence|]. inversion Hpop; subst; clear Hpop.
    apply N.ltb_ge in E. inversion Hnd; subst. inversion Hf; subst.
    unfold dev_wf, same_geom, taken, is_free, d_hi in *. cbn. rewrite Et in *.
    splits; auto; try tauto; try lia.
    + right. cbn. auto.
    + intros q [Hr Hq]. assert (q <> p) by (intros Heq; apply Hq; cbn; auto).
      splits; auto; try tauto. intros Hin; apply Hq; cbn; auto.
    + intros q Hq. split.
      * destruct Hq as [[? ?]|?]; [left; auto|right; cbn; auto].
      * intros ->. destruct Hq as [[? ?]|Hin]; [lia|tauto].
Qed.

Lemma dev_push_spec ps d p : dev_wf ps d -> (ps | p) -> taken d p ->
  dev_wf ps (dev_push p d) /\ same_geom d (dev_push p d) /\
  (forall q, taken d q -> q <> p -> taken (dev_push p d) q) /\
  (forall q, is_free ps (dev_push p d) q <-> is_free ps d q \/ q = p).
Proof.
  intros (Hb & Hs & Hl & Hbl & Hlh & Hnd & Hf) Hp [Hr Hn].
  unfold dev_wf, same_geom, taken, is_free, dev_push, d_hi in *. cbn.
  splits; auto.
  - apply NoDup_app_intro; auto; [constructor; [cbn; tauto|constructor]|]. intros x Hx [<-|[]]. tauto.
  - apply Forall_app. split; auto.
  - intros q [? ?] ?. split; auto. rewrite in_app_iff. cbn. intuition.
  - intros q. rewrite in_app_iff; cbn. intuition.
Qed.

Lemma dev_pop_taken_back ps d p d' q : 0 < ps -> dev_wf ps d -> dev_pop ps d = Some (p, d') ->
  (ps | q) -> taken d' q -> taken d q \/ q = p.
Proof.
  intros Hps (Hb & Hs & Hl & Hbl & Hlh & Hnd & Hf) Hpop Hq Ht. unfold dev_pop in Hpop.
  destruct (d_lo d <? d_hi d) eqn:E.
  - inversion Hpop; subst; clear Hpop. unfold taken in *. cbn in *.
    destruct (N.lt_ge_cases q (d_lo d)) as [Hlt|Hge]; [left; split; [lia|tauto]|].
    right. destruct (N.eq_dec q (d_lo d)) as [->|Hne]; auto.
    assert (d_lo d < q) by lia. pose proof (aligned_step ps _ _ Hps Hl Hq H). lia.
  - destruct (d_tail d) as [|p0 r] eqn:Et; [congruence|]. inversion Hpop; subst; clear Hpop.
    unfold taken in *. cbn in *. rewrite Et. destruct (N.eq_dec q p) as [->|Hne]; auto.
    left. split; [tauto|]. cbn. intros [Heq|Hin]; [congruence|tauto].
Qed.

Lemma dev_push_taken_back d p q : taken (dev_push p d) q -> taken d q /\ q <> p.
Proof.
  unfold taken, dev_push. cbn. rewrite in_app_iff. cbn. intros [Hr Hn].
  split; [split; [exact Hr|tauto]|]. intros Heq. apply Hn. right. left. auto.
Qed.

(** * Device lists: layout and lookup by physical address *)
Fixpoint layout (start : N) (l : list dev) (tot : N) : Prop :=
  match l with
  | [] => start = tot
  | d :: r => d_base d = start /\ layout (start + d_size d) r tot
  end.

Definition geom (l : list dev) : list (N * N) := map (fun d => (d_base d, d_size d)) l.

Lemma layout_geom l l' start tot : geom l = geom l' -> layout start l tot -> layout start l' tot.
Proof.
  revert l' start. induction l as [|d l IH]; destruct l' as [|d' l']; cbn; try congruence.
  intros start H [Hb Hl]. inversion H. split; [congruence|]. rewrite H2. eapply IH; eauto.
  rewrite <- H2. auto.
Qed.

Lemma geom_upd_nth i d d' l : nth_error l i = Some d -> same_geom d d' -> geom (upd_nth i d' l) = geom l.
Proof.
  revert i. induction l as [|a l IH]; destruct i; cbn; try congruence.
  - intros H [Hb Hs]. inversion H; subst. unfold geom; cbn. congruence.
  - intros H Hg. unfold geom in *; cbn. f_equal. eapply IH; eauto.
Qed.

Lemma layout_bounds l : forall start tot i d, layout start l tot -> nth_error l i = Some d ->
  start <= d_base d /\ d_hi d <= tot.
Proof.
  induction l as [|a l IH]; intros start tot i d Hl Hn; destruct i; cbn in *; try congruence.
  - inversion Hn; subst. destruct Hl as [Hb Hl]. unfold d_hi. split; [lia|].
    clear -Hl Hb. rewrite Hb. revert Hl. generalize (start + d_size d). clear.
    induction l; cbn; intros; [lia|]. destruct Hl as [? Hl]. apply IHl in Hl. lia.
  - destruct Hl as [Hb Hl]. eapply IH in Hl; eauto. lia.
Qed.

Lemma layout_end_le l : forall start tot, layout start l tot -> start <= tot.
Proof. induction l; cbn; intros; [lia|]. destruct H as [? H]. apply IHl in H. lia. Qed.

Lemma layout_order l : forall start tot i j d e, layout start l tot -> (i < j)%nat ->
  nth_error l i = Some d -> nth_error l j = Some e -> d_hi d <= d_base e.
Proof.
  induction l as [|a l IH]; intros start tot i j d e Hl Hij Hi Hj; [destruct i; cbn in *; congruence|].
  destruct Hl as [Hb Hl]. destruct j; [lia|]. cbn in Hj. destruct i; cbn in Hi.
  - inversion Hi; subst. eapply layout_bounds in Hl; eauto. unfold d_hi. lia.
  - eapply (IH _ _ i j); eauto. lia.
Qed.

Lemma layout_disjoint l start tot i j d e p : layout start l tot ->
  nth_error l i = Some d -> nth_error l j = Some e ->
  d_base d <= p < d_hi d -> d_base e <= p < d_hi e -> i = j.
Proof.
  intros Hl Hi Hj Hd He. destruct (Nat.lt_trichotomy i j) as [H|[H|H]]; auto.
  - pose proof (layout_order _ _ _ _ _ _ _ Hl H Hi Hj). lia.
  - pose proof (layout_order _ _ _ _ _ _ _ Hl H Hj Hi). lia.
Qed.

Lemma dev_of_pa_from_geom l l' k p : geom l = geom l' -> dev_of_pa_from k l p = dev_of_pa_from k l' p.
Proof.
  revert l' k. induction l as [|d l IH]; destruct l' as [|d' l']; cbn; try congruence; auto.
  intros k H. inversion H. unfold d_hi. rewrite H1, H2. destruct (_ && _); auto.
Qed.

Lemma dev_of_pa_from_sound l : forall k p j, dev_of_pa_from k l p = Some j ->
  exists d, (k <= j)%nat /\ nth_error l (j - k) = Some d /\ d_base d <= p < d_hi d.
Proof.
  induction l as [|a l IH]; cbn; intros k p j H; [congruence|].
  destruct ((d_base a <=? p) && (p <? d_hi a)) eqn:E.
  - inversion H; subst. rewrite Nat.sub_diag. cbn. exists a. split; [lia|]. split; auto.
    apply andb_true_iff in E. lia.
  - apply IH in H. destruct H as (d & Hk & Hn & Hr). exists d. split; [lia|]. split; auto.
    replace (j - k)%nat with (S (j - S k)) by lia. auto.
Qed.

Lemma dev_of_pa_from_complete l : forall start tot k i d p, layout start l tot ->
  nth_error l i = Some d -> d_base d <= p < d_hi d -> dev_of_pa_from k l p = Some (k + i)%nat.
Proof.
  induction l as [|a l IH]; intros start tot k i d p Hl Hn Hr; [destruct i; cbn in *; congruence|].
  cbn. destruct i; cbn in Hn.
  - inversion Hn; subst. replace ((d_base d <=? p) && (p <? d_hi d)) with true by (symmetry; apply andb_true_iff; lia).
    f_equal. lia.
  - assert (d_hi a <= d_base d).
    { eapply (layout_order (a :: l) start tot 0 (S i)); eauto; cbn; auto. lia. }
    replace ((d_base a <=? p) && (p <? d_hi a)) with false by (symmetry; apply andb_false_iff; lia).
    destruct Hl as [_ Hl]. erewrite IH; eauto. f_equal. lia.
Qed.

Lemma dev_of_pa_complete l tot ps i d p : layout ps l tot ->
  nth_error l i = Some d -> d_base d <= p < d_hi d -> dev_of_pa l p = Some i.
Proof. intros Hl Hn Hr. unfold dev_of_pa. erewrite (dev_of_pa_from_complete l ps tot 0 i d); eauto. Qed.

Lemma dev_of_pa_sound l p j : dev_of_pa l p = Some j ->
  exists d, nth_error l j = Some d /\ d_base d <= p < d_hi d.
Proof.
  intros H. apply dev_of_pa_from_sound in H. destruct H as (d & _ & Hn & Hr).
  rewrite Nat.sub_0_r in Hn. eauto.
Qed.

Lemma dev_of_pa_app l x p j : dev_of_pa l p = Some j -> dev_of_pa (l ++ x) p = Some j.
Proof.
  unfold dev_of_pa. generalize 0%nat. induction l as [|a l IH]; cbn; intros k H; [congruence|].
  destruct (_ && _); auto.
Qed.

(** * The physical invariant: device list [l] with the set [live] of handed-out pages *)
Definition owned (l : list dev) (p : N) (i : nat) : Prop :=
  exists d, nth_error l i = Some d /\ taken d p.

Definition avail (ps : N) (l : list dev) (p : N) : Prop :=
  exists i d, nth_error l i = Some d /\ is_free ps d p.

Definition phys_inv (ps : N) (l : list dev) (tot : N) (live : list N) : Prop :=
  0 < ps /\ (ps | tot) /\ layout ps l tot /\ Forall (dev_wf ps) l /\ NoDup live /\
  (forall p, In p live -> (ps | p) /\ exists i, owned l p i) /\
  (* nothing is lost: every page a device handed out and did not get back is accounted for *)
  (forall i d q, nth_error l i = Some d -> (ps | q) -> taken d q -> In q live).

Lemma phys_inv_equiv ps l tot live live' : phys_inv ps l tot live -> NoDup live' ->
  (forall p, In p live' <-> In p live) -> phys_inv ps l tot live'.
Proof.
  intros (H1 & H2 & H3 & H4 & H5 & H6 & H7) Hn Hs. unfold phys_inv. splits; auto.
  - intros p Hp. apply H6. apply Hs. auto.
  - intros i d q Hi Hq Ht. apply Hs. eauto.
Qed.

Lemma taken_in_range ps d p : dev_wf ps d -> taken d p -> d_base d <= p < d_hi d.
Proof. intros (Hb & Hs & Hl & Hbl & Hlh & _) [Hr _]. lia. Qed.

Lemma owned_dev_of_pa ps l tot live p i : phys_inv ps l tot live -> owned l p i -> dev_of_pa l p = Some i.
Proof.
  intros (H1 & H2 & H3 & H4 & H5 & H6 & H7) (d & Hn & Ht).
  eapply dev_of_pa_complete; eauto. eapply taken_in_range; eauto.
  rewrite Forall_forall in H4. apply H4. eapply nth_error_In; eauto.
Qed.

Lemma free_not_taken ps d p : dev_wf ps d -> is_free ps d p -> taken d p -> False.
Proof. intros _ [[? ?]|?] [? ?]; [lia|tauto]. Qed.

Lemma free_in_range ps d p : dev_wf ps d -> is_free ps d p -> d_base d <= p < d_hi d.
Proof.
  intros (Hb & Hs & Hl & Hbl & Hlh & Hnd & Hf) [[? ?]|Hin]; [lia|].
  rewrite Forall_forall in Hf. apply Hf in Hin. lia.
Qed.

(** a free page is not live: the heart of "never handed out twice" *)
Lemma avail_not_live ps l tot live p : phys_inv ps l tot live -> avail ps l p -> ~ In p live.
Proof.
  intros Hinv (i & d & Hn & Hf) Hin. pose proof Hinv as (H1 & H2 & H3 & H4 & H5 & H6 & H7).
  destruct (H6 _ Hin) as (_ & j & e & Hj & Ht).
  rewrite Forall_forall in H4.
  assert (Hd : dev_wf ps d) by (apply H4; eapply nth_error_In; eauto).
  assert (He : dev_wf ps e) by (apply H4; eapply nth_error_In; eauto).
  assert (i = j).
  { eapply layout_disjoint; eauto; [eapply free_in_range|eapply taken_in_range]; eauto. }
  subst. rewrite Hn in Hj. inversion Hj; subst. eapply free_not_taken; eauto.
Qed.

(** replacing device i by one that differs in a controlled way *)
Lemma phys_upd ps l tot live live' i d d' :
  phys_inv ps l tot live -> nth_error l i = Some d -> dev_wf ps d' -> same_geom d d' -> NoDup live' ->
  (forall q, In q live' -> (In q live /\ (taken d q -> taken d' q)) \/ ((ps | q) /\ taken d' q)) ->
  (forall q, In q live -> ~ taken d q -> In q live') ->
  (forall q, (ps | q) -> taken d' q -> In q live') ->
  phys_inv ps (upd_nth i d' l) tot live'.
Proof.
  intros (H1 & H2 & H3 & H4 & H5 & H6 & H7) Hn Hwf Hg Hnd Hk Hother Hcomp. unfold phys_inv. splits; auto.
  - eapply layout_geom; [|exact H3]. symmetry. eapply geom_upd_nth; eauto.
  - apply Forall_upd_nth; auto.
  - intros p Hp. destruct (Hk _ Hp) as [[Hl Hkeep]|[Ha Ht]].
    + destruct (H6 _ Hl) as (Ha & j & e & Hj & Ht). split; auto.
      destruct (Nat.eq_dec i j) as [->|Hne].
      * rewrite Hn in Hj. inversion Hj; subst. exists j, d'. split; auto.
        apply nth_upd_nth_same. eapply nth_error_lt; eauto.
      * exists j, e. split; auto. rewrite nth_upd_nth_other; auto.
    + split; auto. exists i, d'. split; auto. apply nth_upd_nth_same. eapply nth_error_lt; eauto.
  - intros j e q Hj Hq Ht. destruct (Nat.eq_dec i j) as [->|Hne].
    + rewrite nth_upd_nth_same in Hj by (eapply nth_error_lt; eauto). inversion Hj; subst. auto.
    + rewrite nth_upd_nth_other in Hj by auto. apply Hother; [eapply H7; eauto|].
      intros Htd. rewrite Forall_forall in H4.
      assert (Hd : dev_wf ps d) by (apply H4; eapply nth_error_In; eauto).
      assert (He : dev_wf ps e) by (apply H4; eapply nth_error_In; eauto).
      apply Hne. eapply layout_disjoint; eauto; eapply taken_in_range; eauto.
Qed.

Lemma phys_upd_same ps l tot live i d d' :
  phys_inv ps l tot live -> nth_error l i = Some d -> dev_wf ps d' -> same_geom d d' ->
  (forall q, taken d q <-> taken d' q) -> phys_inv ps (upd_nth i d' l) tot live.
Proof.
  intros Hinv Hn Hwf Hg Hsame. pose proof Hinv as (H1 & H2 & H3 & H4 & H5 & H6 & H7).
  eapply phys_upd; eauto.
  - intros q Hq. left. split; auto. apply Hsame.
  - intros q Hq Ht. eapply H7; eauto. apply Hsame; auto.
Qed.

Lemma avail_upd ps l i d d' p : nth_error l i = Some d ->
  (forall q, is_free ps d' q -> is_free ps d q) ->
  avail ps (upd_nth i d' l) p -> avail ps l p.
Proof.
  intros Hn Hf (j & e & Hj & He). destruct (Nat.eq_dec i j) as [->|Hne].
  - rewrite nth_upd_nth_same in Hj by (eapply nth_error_lt; eauto). inversion Hj; subst.
    exists j, d. auto.
  - rewrite nth_upd_nth_other in Hj; auto. exists j, e. auto.
Qed.

(** the result of every way of taking pages from the devices *)
Record took (ps : N) (l : list dev) (tot : N) (live : list N) (got : list N) (l' : list dev) : Prop := {
  tk_inv : phys_inv ps l' tot (got ++ live);
  tk_geom : geom l' = geom l;
  tk_avail : forall p, In p got -> avail ps l p;
  tk_mono : forall p, avail ps l' p -> avail ps l p;
  tk_kind : map d_kind l' = map d_kind l
}.

Lemma map_upd_nth {A B} (f : A -> B) i x d (l : list A) : nth_error l i = Some d -> f x = f d ->
  map f (upd_nth i x l) = map f l.
Proof.
  revert i. induction l; destruct i; cbn; intros H E; try discriminate.
  - inversion H; subst. rewrite E. auto.
  - f_equal. auto.
Qed.

Lemma pop_real_took ps l tot live i p l' : phys_inv ps l tot live -> pop_real ps i l = Some (p, l') ->
  took ps l tot live [p] l' /\ owned l' p i.
Proof.
  intros Hinv Hpop. unfold pop_real in Hpop.
  destruct (nth_error l i) as [d|] eqn:Hn; [|congruence].
  destruct (dev_pop ps d) as [[p0 d']|] eqn:Hp; [|congruence]. inversion Hpop; subst; clear Hpop.
  pose proof Hinv as (H1 & H2 & H3 & H4 & H5 & H6 & H7).
  assert (Hd : dev_wf ps d) by (rewrite Forall_forall in H4; apply H4; eapply nth_error_In; eauto).
  destruct (dev_pop_spec _ _ _ _ H1 Hd Hp) as (Hwf & Hg & Ha & Hfree & Htk & Hkd & Hmb & Hnx & Hkeep & Hmono).
  assert (Hav : avail ps l p) by (exists i, d; auto).
  assert (Hnl : ~ In p live) by (eapply avail_not_live; eauto).
  split; [constructor|].
  - cbn [app]. eapply (phys_upd ps l tot live (p :: live) i d d'); eauto.
    + constructor; auto.
    + intros q [<-|Hq]; [right; auto|]. left. split; auto. intros Ht. apply Hkeep; auto.
    + intros q Hq _. right. auto.
    + intros q Hq Ht. destruct (dev_pop_taken_back _ _ _ _ _ H1 Hd Hp Hq Ht) as [Ht'| ->]; [|left; auto].
      right. eapply H7; eauto.
  - eapply geom_upd_nth; eauto.
  - intros q [<-|[]]. auto.
  - intros q Hq. eapply avail_upd; [exact Hn| |exact Hq]. intros x Hx. apply Hmono; auto.
  - eapply map_upd_nth; eauto.
  - exists d'. split; auto. apply nth_upd_nth_same. eapply nth_error_lt; eauto.
Qed.

Lemma took_refl ps l tot live : phys_inv ps l tot live -> took ps l tot live [] l.
Proof. intros H. constructor; auto. intros p []. Qed.

Lemma took_trans ps l tot live g1 l1 g2 l2 :
  took ps l tot live g1 l1 -> took ps l1 tot (g1 ++ live) g2 l2 -> took ps l tot live (g2 ++ g1) l2.
Proof.
  intros [A1 A2 A3 A4 A5] [B1 B2 B3 B4 B5]. constructor.
  - rewrite <- app_assoc. auto.
  - congruence.
  - intros p Hp. apply in_app_iff in Hp. destruct Hp; auto.
  - auto.
  - congruence.
Qed.

Lemma took_bump ps l tot live got l' i : took ps l tot live got l' -> took ps l tot live got (bump i l').
Proof.
  intros [A1 A2 A3 A4 A5]. unfold bump. destruct (nth_error l' i) as [d|] eqn:Hn; [|constructor; auto].
  set (d' := d <| d_next := _ |>).
  assert (Hg : same_geom d d') by (split; auto).
  constructor.
  - eapply phys_upd_same; eauto; [|intros q; reflexivity].
    destruct A1 as (_ & _ & _ & H4 & _). rewrite Forall_forall in H4.
    apply (H4 d). eapply nth_error_In; eauto.
  - rewrite <- A2. eapply geom_upd_nth; eauto.
  - auto.
  - intros p Hp. apply A4. eapply avail_upd; [exact Hn| |exact Hp]. auto.
  - rewrite <- A5. eapply map_upd_nth; eauto.
Qed.

Lemma pop_n_took ps n : forall l tot live i d pas d',
  phys_inv ps l tot live -> nth_error l i = Some d -> pop_n ps n d = Some (pas, d') ->
  took ps l tot live (rev pas) (upd_nth i d' l) /\ length pas = n.
Proof.
  induction n as [|n IH]; cbn; intros l tot live i d pas d' Hinv Hn Hp.
  - inversion Hp; subst. cbn. split; auto.
    replace (upd_nth i d' l) with l; [apply took_refl; auto|].
    clear -Hn. revert i Hn. induction l; destruct i; cbn; intros; try congruence. f_equal; auto.
  - destruct (dev_pop ps d) as [[p d1]|] eqn:E; [|congruence].
    destruct (pop_n ps n d1) as [[r d2]|] eqn:E2; [|congruence]. inversion Hp; subst; clear Hp.
    assert (Hpr : pop_real ps i l = Some (p, upd_nth i d1 l)) by (unfold pop_real; rewrite Hn, E; auto).
    destruct (pop_real_took _ _ _ _ _ _ _ Hinv Hpr) as [Ht _].
    assert (Hn1 : nth_error (upd_nth i d1 l) i = Some d1)
      by (apply nth_upd_nth_same; eapply nth_error_lt; eauto).
    destruct (IH _ tot ([p] ++ live) i d1 r d' (tk_inv _ _ _ _ _ _ Ht) Hn1 E2) as [Ht2 Hlen].
    split; [|cbn; lia]. cbn [rev].
    replace (upd_nth i d' l) with (upd_nth i d' (upd_nth i d1 l)).
    + eapply took_trans; eauto.
    + clear. revert i. induction l; destruct i; cbn; auto. f_equal; auto.
Qed.

Lemma multi_real_took ps n l tot live i pas l' :
  phys_inv ps l tot live -> multi_real ps n i l = Some (pas, l') ->
  took ps l tot live (rev pas) l' /\ length pas = n.
Proof.
  intros Hinv H. unfold multi_real in H. destruct (nth_error l i) as [d|] eqn:Hn; [|congruence].
  destruct (dev_empty d); [congruence|].
  destruct (pop_n ps n d) as [[r d']|] eqn:E; [|congruence]. inversion H; subst.
  eapply pop_n_took; eauto.
Qed.

Lemma alloc_page_took ps l tot live i p l' :
  phys_inv ps l tot live -> alloc_page ps i l = Some (p, l') ->
  took ps l tot live [p] l' /\ exists m, owned l' p m.
Proof.
  intros Hinv H. unfold alloc_page in H. destruct (nth_error l i) as [d|] eqn:Hn; [|congruence].
  destruct (is_unified (d_kind d)).
  - destruct (select_member l d) as [m|]; [|congruence].
    destruct (pop_real ps m l) as [[p0 l0]|] eqn:E; [|congruence]. inversion H; subst.
    destruct (pop_real_took _ _ _ _ _ _ _ Hinv E) as [Ht (e & He & Hk)].
    split; [apply took_bump; auto|].
    exists m. unfold bump. destruct (nth_error l0 i) as [d0|] eqn:Hn0; [|exists e; auto].
    destruct (Nat.eq_dec i m) as [->|Hne].
    + rewrite Hn0 in He. inversion He; subst. eexists. split; [apply nth_upd_nth_same; eapply nth_error_lt; eauto|].
      exact Hk.
    + exists e. split; auto. rewrite nth_upd_nth_other; auto.
  - destruct (pop_real_took _ _ _ _ _ _ _ Hinv H) as [Ht Ho]. split; eauto.
Qed.

Lemma alloc_page_real ps l tot live i d p l' :
  phys_inv ps l tot live -> nth_error l i = Some d -> is_unified (d_kind d) = false ->
  alloc_page ps i l = Some (p, l') -> owned l' p i.
Proof.
  intros Hinv Hn Hk H. unfold alloc_page in H. rewrite Hn, Hk in H.
  eapply pop_real_took; eauto.
Qed.

Lemma alloc_multi_took ps n l tot live i pas l' :
  phys_inv ps l tot live -> alloc_multi ps n i l = Some (pas, l') ->
  took ps l tot live (rev pas) l' /\ length pas = n.
Proof.
  intros Hinv H. unfold alloc_multi in H. destruct (nth_error l i) as [d|] eqn:Hn; [|congruence].
  destruct (is_unified (d_kind d)).
  - destruct (nth_error (d_members d) (d_next d)) as [m|]; [|congruence].
    destruct (multi_real ps n m l) as [[r l0]|] eqn:E; [|congruence]. inversion H; subst.
    destruct (multi_real_took _ _ _ _ _ _ _ _ Hinv E). split; auto. apply took_bump; auto.
  - eapply multi_real_took; eauto.
Qed.

(** giving a page back *)
Lemma push_to_inv ps l tot live p i :
  phys_inv ps l tot (p :: live) -> dev_of_pa l p = Some i ->
  phys_inv ps (push_to i p l) tot live /\ geom (push_to i p l) = geom l /\
  map d_kind (push_to i p l) = map d_kind l /\
  (forall q, avail ps (push_to i p l) q <-> avail ps l q \/ q = p).
Proof.
  intros Hinv Hd. pose proof Hinv as (H1 & H2 & H3 & H4 & H5 & H6 & H7).
  destruct (H6 p (or_introl eq_refl)) as (Ha & j & Ho).
  assert (j = i) by (pose proof (owned_dev_of_pa _ _ _ _ _ _ Hinv Ho); congruence). subst j.
  destruct Ho as (d & Hn & Ht). unfold push_to. rewrite Hn.
  assert (Hwf : dev_wf ps d) by (rewrite Forall_forall in H4; apply H4; eapply nth_error_In; eauto).
  destruct (dev_push_spec ps d p Hwf Ha Ht) as (Hwf' & Hg & Hkeep & Hfree).
  inversion H5; subst.
  splits.
  - eapply (phys_upd ps l tot (p :: live) live i d (dev_push p d)); eauto.
    + intros q Hq. left. split; [right; auto|]. intros Htq. apply Hkeep; auto. intros ->. auto.
    + intros q [<-|Hq] Hnt; [tauto|auto].
    + intros q Hq Htq. apply dev_push_taken_back in Htq. destruct Htq as [Htq Hne].
      destruct (H7 i d q Hn Hq Htq) as [Heq|Hin]; [congruence|auto].
  - eapply geom_upd_nth; eauto.
  - eapply map_upd_nth; eauto.
  - intros q. split.
    + intros (j & e & Hj & He). destruct (Nat.eq_dec i j) as [->|Hne].
      * rewrite nth_upd_nth_same in Hj by (eapply nth_error_lt; eauto). inversion Hj; subst.
        apply Hfree in He. destruct He; auto. left. exists j, d. auto.
      * rewrite nth_upd_nth_other in Hj; auto. left. exists j, e. auto.
    + intros [(j & e & Hj & He)| ->].
      * destruct (Nat.eq_dec i j) as [->|Hne].
        -- rewrite Hn in Hj. inversion Hj; subst. exists j, (dev_push p e). split.
           ++ apply nth_upd_nth_same. eapply nth_error_lt; eauto.
           ++ apply Hfree. auto.
        -- exists j, e. rewrite nth_upd_nth_other; auto.
      * exists i, (dev_push p d). split.
        -- apply nth_upd_nth_same. eapply nth_error_lt; eauto.
        -- apply Hfree. auto.
Qed.

(** * Page table level *)
Definition pas (t : list (key * page)) : list N := map (fun e => p_pa (snd e)) t.

Definition entry_ok (ps : N) (l : list dev) (e : key * page) : Prop :=
  fst e = (p_pid (snd e), p_va (snd e)) /\ (ps | p_va (snd e)) /\
  exists di, p_dev (snd e) = N.of_nat di /\ dev_of_pa l (p_pa (snd e)) = Some di.

(** [X]: physical pages already taken from the devices but not yet entered *)
Definition coreX (ps : N) (l : list dev) (tot : N) (X : list N) (t : list (key * page)) : Prop :=
  phys_inv ps l tot (X ++ pas t) /\ NoDup (map fst t) /\ Forall (entry_ok ps l) t.
Definition core ps l tot t := coreX ps l tot [] t.
(** the table-level invariant of a state; pages dropped by migration preparation stay pending for ever *)
Definition cst (s : st) : Prop := coreX (psz s) (devs s) (total s) (g_leaked s) (pt s).

Lemma entry_ok_geom ps l l' e : geom l' = geom l -> entry_ok ps l e -> entry_ok ps l' e.
Proof.
  intros Hg (H1 & H2 & di & H3 & H4). unfold entry_ok. splits; auto. exists di. split; auto.
  unfold dev_of_pa in *. erewrite dev_of_pa_from_geom; eauto.
Qed.

Lemma coreX_took ps l tot X t got l' :
  coreX ps l tot X t -> took ps l tot (X ++ pas t) got l' -> coreX ps l' tot (got ++ X) t.
Proof.
  intros (H1 & H2 & H3) [A1 A2 A3 A4 A5]. unfold coreX. splits; auto.
  - rewrite <- app_assoc. auto.
  - eapply Forall_impl; [|exact H3]. intros e. apply entry_ok_geom; auto.
Qed.

Lemma pas_app a b : pas (a ++ b) = pas a ++ pas b.
Proof. unfold pas. apply map_app. Qed.

Lemma core_insert ps l tot X t k pg di :
  coreX ps l tot (p_pa pg :: X) t -> amem keqb k t = false ->
  k = (p_pid pg, p_va pg) -> (ps | p_va pg) -> p_dev pg = N.of_nat di -> dev_of_pa l (p_pa pg) = Some di ->
  coreX ps l tot X (t ++ [(k, pg)]).
Proof.
  intros (H1 & H2 & H3) Hm Hk Ha Hd Hdev. unfold coreX. splits.
  - eapply phys_inv_equiv; eauto.
    + destruct H1 as (_ & _ & _ & _ & Hn & _). rewrite pas_app. cbn in *.
      rewrite app_assoc. eapply Permutation_NoDup; [|exact Hn]. apply Permutation_cons_append.
    + intros p. rewrite pas_app. cbn. rewrite !in_app_iff. cbn. intuition.
  - rewrite map_app. cbn. apply NoDup_app_intro; auto.
    + constructor; auto. constructor.
    + intros x Hx [<-|[]]. apply (amem_false_iff keqb keqb_eq) in Hm. auto.
  - apply Forall_app. split; auto. constructor; auto.
    unfold entry_ok. cbn. splits; auto. exists di. auto.
Qed.

(** replacing the page of an existing entry: the previous physical page
    becomes a pending page *)
Lemma core_update ps l tot X t k pg old di :
  coreX ps l tot (p_pa pg :: X) t -> alookup keqb k t = Some old ->
  k = (p_pid pg, p_va pg) -> p_dev pg = N.of_nat di -> dev_of_pa l (p_pa pg) = Some di ->
  coreX ps l tot (p_pa old :: X) (aset keqb k pg t) /\
  (forall p, In p (pas (aset keqb k pg t)) -> p = p_pa pg \/ In p (pas t)) /\
  map fst (aset keqb k pg t) = map fst t.
Proof.
  intros (H1 & H2 & H3) Hl Hk Hd Hdev.
  destruct (alookup_split keqb keqb_eq k old t Hl) as (t1 & t2 & Ht & Hn1).
  assert (Hs : aset keqb k pg t = t1 ++ (k, pg) :: t2).
  { subst t. clear -Hn1. induction t1 as [|[k' v'] t1 IH]; cbn.
    - rewrite keqb_refl. auto.
    - cbn in Hn1. destruct (keqb k k') eqn:E; [apply keqb_eq in E; subst; tauto|]. rewrite IH; auto. }
  rewrite Hs. subst t.
  unfold coreX. splits; auto.
  - eapply phys_inv_equiv; eauto.
    + destruct H1 as (_ & _ & _ & _ & Hn & _). rewrite !pas_app in *. cbn in *.
      assert (Hp : Permutation (p_pa pg :: X ++ pas t1 ++ p_pa old :: pas t2)
                               (p_pa old :: X ++ pas t1 ++ p_pa pg :: pas t2)).
      { rewrite !app_assoc. rewrite <- !Permutation_middle. apply perm_swap. }
      apply (Permutation_NoDup Hp) in Hn. exact Hn.
    + intros p. rewrite !pas_app. cbn. rewrite !in_app_iff. cbn. intuition.
  - rewrite !map_app in *. cbn in *. auto.
  - apply Forall_app in H3. destruct H3 as [F1 F2]. inversion F2; subst. apply Forall_app. split; auto. constructor; auto.
    destruct H3 as (E1 & E2 & _). cbn in *. unfold entry_ok. cbn.
    inversion E1. splits; auto; try congruence. exists di. auto.
  - intros p. rewrite !pas_app. cbn. rewrite !in_app_iff. cbn. intuition.
  - rewrite !map_app. cbn. auto.
Qed.

(** a pending page goes back to its device *)
Lemma coreX_release ps l tot X t p di :
  coreX ps l tot (p :: X) t -> dev_of_pa l p = Some di ->
  coreX ps (push_to di p l) tot X t /\
  (forall q, avail ps (push_to di p l) q <-> avail ps l q \/ q = p) /\
  geom (push_to di p l) = geom l /\ map d_kind (push_to di p l) = map d_kind l.
Proof.
  intros (H1 & H2 & H3) Hdev. cbn in H1.
  destruct (push_to_inv _ _ _ _ _ _ H1 Hdev) as (P1 & P2 & P3 & P4).
  splits; auto. unfold coreX. splits; auto.
  eapply Forall_impl; [|exact H3]. intros e. apply entry_ok_geom; auto.
Qed.

(** removing an entry: its physical page becomes a pending page *)
Lemma core_remove ps l tot X t k pg :
  coreX ps l tot X t -> alookup keqb k t = Some pg ->
  coreX ps l tot (p_pa pg :: X) (adel keqb k t) /\
  (forall p, In p (pas (adel keqb k t)) -> In p (pas t)).
Proof.
  intros (H1 & H2 & H3) Hl.
  destruct (alookup_split keqb keqb_eq k pg t Hl) as (t1 & t2 & Ht & Hn1). subst t.
  assert (Hn2 : ~ In k (map fst t2)).
  { rewrite map_app in H2. cbn in H2. apply NoDup_app_r in H2. inversion H2; auto. }
  rewrite (adel_split keqb keqb_eq); auto.
  splits.
  - unfold coreX. splits.
    + eapply phys_inv_equiv; eauto.
      * destruct H1 as (_ & _ & _ & _ & Hn & _). rewrite !pas_app in *. cbn in *.
        eapply Permutation_NoDup; [|exact Hn].
        rewrite !app_assoc. symmetry. apply Permutation_middle.
      * intros p. rewrite !pas_app. cbn. rewrite !in_app_iff. cbn. intuition.
    + rewrite map_app in *. cbn in H2. eapply NoDup_remove_1; eauto.
    + apply Forall_app in H3. destruct H3 as [F1 F2]. inversion F2; subst. apply Forall_app. split; auto.
  - intros p. unfold pas. rewrite !map_app. cbn. rewrite !in_app_iff. cbn. intuition.
Qed.

(** * State level *)
Definition buf_pid (b : key * N) : N := fst (fst b).
Definition buf_lo (b : key * N) : N := snd (fst b).
Definition buf_hi (ps : N) (b : key * N) : N := snd (fst b) + snd b * ps.

Definition bufs_ok (s : st) : Prop :=
  Forall (fun b => (psz s | buf_lo b) /\ buf_hi (psz s) b <= next_va_of s (buf_pid b)) (g_bufs s) /\
  ForallOrdPairs (fun a b => buf_pid a = buf_pid b ->
                    buf_hi (psz s) a <= buf_lo b \/ buf_hi (psz s) b <= buf_lo a) (g_bufs s).

Definition Inv (s : st) : Prop :=
  cst s /\ mirror s = pt s /\
  Forall (fun e => (psz s | snd e)) (next_va s) /\ bufs_ok s.

Lemma psz_pos s : 0 < psz s.
Proof. unfold psz. apply N.neq_0_lt_0. apply N.pow_nonzero. lia. Qed.

(** the effect of operations that only take pages from the devices *)
Record grow (s s' : st) : Prop := {
  gr_core : coreX (psz s) (devs s') (total s) (g_leaked s) (pt s');
  gr_mirror : mirror s' = pt s';
  gr_frame : s' = s <| devs := devs s' |> <| pt := pt s' |> <| mirror := mirror s' |>;
  gr_geom : geom (devs s') = geom (devs s);
  gr_kind : map d_kind (devs s') = map d_kind (devs s);
  gr_new : forall pa, In pa (pas (pt s')) -> In pa (pas (pt s)) \/ avail (psz s) (devs s) pa;
  gr_mono : forall p, avail (psz s) (devs s') p -> avail (psz s) (devs s) p \/ In p (pas (pt s));
  gr_keys : forall k, In k (map fst (pt s)) -> In k (map fst (pt s'))
}.

Lemma grow_refl s : cst s -> mirror s = pt s -> grow s s.
Proof. intros. constructor; auto. destruct s; reflexivity. Qed.

Lemma frame_psz s s' : s' = s <| devs := devs s' |> <| pt := pt s' |> <| mirror := mirror s' |> ->
  psz s' = psz s /\ total s' = total s.
Proof. intros ->. destruct s; cbn. auto. Qed.

Lemma grow_trans s s1 s2 : grow s s1 -> grow s1 s2 -> grow s s2.
Proof.
  intros [A1 A2 A3 A4 A5 A6 A7 A8] [B1 B2 B3 B4 B5 B6 B7 B8].
  destruct (frame_psz _ _ A3) as [Hp Ht]. rewrite Hp, Ht in *.
  assert (Hl : g_leaked s1 = g_leaked s) by (rewrite A3; destruct s; reflexivity). rewrite Hl in *.
  constructor; auto; try congruence.
  - rewrite B3, A3. destruct s; reflexivity.
  - intros pa Hpa. destruct (B6 _ Hpa) as [H|H]; auto. destruct (A7 _ H); auto.
  - intros q Hq. destruct (B7 _ Hq) as [H|H]; auto. destruct (A6 _ H); auto.
Qed.

Lemma pt_insert_spec k v t t' : pt_insert k v t = Some t' -> amem keqb k t = false /\ t' = t ++ [(k, v)].
Proof. unfold pt_insert. destruct (amem keqb k t); intros H; inversion H; auto. Qed.

Lemma pt_update_spec k v t t' : pt_update k v t = Some t' -> amem keqb k t = true /\ t' = aset keqb k v t.
Proof. unfold pt_update. destruct (amem keqb k t); intros H; inversion H; auto. Qed.

Lemma pt_remove_spec k t t' : pt_remove k t = Some t' -> amem keqb k t = true /\ t' = adel keqb k t.
Proof. unfold pt_remove. destruct (amem keqb k t); intros H; inversion H; auto. Qed.

Lemma core_phys s : cst s -> phys_inv (psz s) (devs s) (total s) (g_leaked s ++ pas (pt s)).
Proof. intros (H & _). exact H. Qed.

Lemma alloc_loop_grow k : forall pid va dv uni s s',
  cst s -> mirror s = pt s -> (psz s | va) ->
  alloc_loop k pid va dv uni s = Some s' -> grow s s'.
Proof.
  induction k as [|k IH]; cbn [alloc_loop]; intros pid va dv uni s s' Hc Hm Ha H.
  - inversion H; subst. apply grow_refl; auto.
  - destruct (alloc_page (psz s) dv (devs s)) as [[pa l']|] eqn:E1; [|congruence].
    destruct (dev_of_pa l' pa) as [di|] eqn:E2; [|congruence].
    destruct (pt_insert _ _ (pt s)) as [pt'|] eqn:E3; [|congruence].
    apply pt_insert_spec in E3. destruct E3 as [Hf ->].
    destruct (alloc_page_took _ _ _ _ _ _ _ (core_phys _ Hc) E1) as [Ht _].
    pose proof (coreX_took _ _ _ _ _ _ _ Hc Ht) as Hc1.
    set (pg := mkPage pid va pa (N.of_nat di) uni) in *.
    assert (Hc2 : coreX (psz s) l' (total s) (g_leaked s) (pt s ++ [((pid, va), pg)])).
    { eapply (core_insert _ _ _ (g_leaked s) _ _ pg di); eauto. }
    set (s1 := s <| devs := l' |> <| pt := _ |> <| mirror := _ |>) in H.
    assert (G1 : grow s s1).
    { constructor; subst s1; cbn; auto.
      - rewrite Hm. apply (aset_fresh keqb); auto.
      - apply (tk_geom _ _ _ _ _ _ Ht).
      - apply (tk_kind _ _ _ _ _ _ Ht).
      - intros q. rewrite map_app. cbn. rewrite in_app_iff. cbn. intros [Hq|[<-|[]]]; auto.
        right. apply (tk_avail _ _ _ _ _ _ Ht). cbn; auto.
      - intros q Hq. left. apply (tk_mono _ _ _ _ _ _ Ht). auto.
      - intros k0. rewrite map_app, in_app_iff. auto. }
    eapply grow_trans; [exact G1|].
    eapply IH; [| | |exact H]; subst s1.
    + cbn. exact Hc2.
    + cbn. rewrite Hm. apply (aset_fresh keqb); auto.
    + cbn. apply aligned_add; auto.
Qed.

Lemma coreX_rev ps l tot X Y t : coreX ps l tot (rev X ++ Y) t -> coreX ps l tot (X ++ Y) t.
Proof.
  intros (H1 & H2 & H3). unfold coreX. splits; auto.
  eapply phys_inv_equiv; eauto.
  - destruct H1 as (_ & _ & _ & _ & Hn & _). eapply Permutation_NoDup; [|exact Hn].
    apply Permutation_app_tail. apply Permutation_app_tail. symmetry. apply Permutation_rev.
  - intros p. rewrite !in_app_iff, <- in_rev. tauto.
Qed.

Lemma frame3_fields s s' : s' = s <| devs := devs s' |> <| pt := pt s' |> <| mirror := mirror s' |> ->
  psz s' = psz s /\ total s' = total s /\ g_leaked s' = g_leaked s.
Proof. intros ->. destruct s; cbn. auto. Qed.

Lemma given_loop_spec : forall X pid va uni s s',
  coreX (psz s) (devs s) (total s) (X ++ g_leaked s) (pt s) -> mirror s = pt s ->
  given_loop pid va uni X s = Some s' ->
  coreX (psz s) (devs s') (total s) (g_leaked s) (pt s') /\ mirror s' = pt s' /\
  s' = s <| devs := devs s' |> <| pt := pt s' |> <| mirror := mirror s' |> /\
  geom (devs s') = geom (devs s) /\ map d_kind (devs s') = map d_kind (devs s) /\
  (forall p, In p (pas (pt s')) -> In p X \/ In p (pas (pt s))) /\
  (forall q, avail (psz s) (devs s') q -> avail (psz s) (devs s) q \/ In q (pas (pt s)) \/ In q X) /\
  map fst (pt s') = map fst (pt s).
Proof.
  induction X as [|pa X IH]; cbn [given_loop]; intros pid va uni s s' Hc Hm H.
  - inversion H; subst. splits; auto. destruct s'; reflexivity.
  - destruct (dev_of_pa (devs s) pa) as [di|] eqn:E1; [|congruence].
    destruct (pt_update _ _ (pt s)) as [pt'|] eqn:E2; [|congruence].
    apply pt_update_spec in E2. destruct E2 as [Hf ->].
    set (pg := mkPage pid va pa (N.of_nat di) uni) in *.
    rewrite Hm in H. unfold amem in Hf.
    destruct (alookup keqb (pid, va) (pt s)) as [old|] eqn:El; [|congruence].
    destruct (dev_of_pa (devs s) (p_pa old)) as [dj|] eqn:E3; [|congruence].
    cbn [app] in Hc.
    destruct (core_update _ _ _ (X ++ g_leaked s) (pt s) (pid, va) pg old di Hc El eq_refl eq_refl E1) as (Hc1 & Hsub & Hk).
    destruct (coreX_release _ _ _ _ _ _ _ Hc1 E3) as (Hc2 & Hav & Hg & Hkd).
    assert (Hold : In (p_pa old) (pas (pt s))).
    { apply (alookup_In keqb keqb_eq) in El. unfold pas. apply (in_map (fun e => p_pa (snd e)) _ _ El). }
    apply IH in H; cbn; auto.
    cbn in H. destruct H as (A1 & A2 & A3 & A4 & A5 & A6 & A7 & A8).
    split; [exact A1|]. split; [exact A2|]. split; [rewrite A3; destruct s; reflexivity|].
    split; [rewrite A4; exact Hg|]. split; [rewrite A5; exact Hkd|].
    split; [|split; [|rewrite A8; exact Hk]].
    + intros p Hp. destruct (A6 _ Hp) as [Hx|Hx]; [left; right; auto|].
      destruct (Hsub _ Hx) as [->|Hy]; [left; left; auto|right; auto].
    + intros q Hq. destruct (A7 _ Hq) as [Hx|[Hx|Hx]].
      * apply Hav in Hx. destruct Hx as [Hx| ->]; auto.
      * destruct (Hsub _ Hx) as [->|Hy]; [right; right; left; auto|right; left; auto].
      * right. right. right. auto.
Qed.

Lemma remap_grow pid va bytes dv s s' :
  cst s -> mirror s = pt s ->
  remap pid va bytes dv s = Some s' -> grow s s' /\ map fst (pt s') = map fst (pt s).
Proof.
  intros Hc Hm H. unfold remap in H.
  destruct (alloc_multi _ _ dv (devs s)) as [[X l']|] eqn:E; [|congruence].
  destruct (alloc_multi_took _ _ _ _ _ _ _ _ (core_phys _ Hc) E) as [Ht _].
  pose proof (coreX_took _ _ _ _ _ _ _ Hc Ht) as Hc1. apply coreX_rev in Hc1.
  apply given_loop_spec in H; cbn; auto.
  cbn in H. change (psz (s <| devs := l' |>)) with (psz s) in H.
  destruct H as (A1 & A2 & A3 & A4 & A5 & A6 & A7 & A8). split; auto.
  constructor.
  - exact A1.
  - exact A2.
  - rewrite A3. destruct s; reflexivity.
  - rewrite A4. apply (tk_geom _ _ _ _ _ _ Ht).
  - rewrite A5. apply (tk_kind _ _ _ _ _ _ Ht).
  - intros q Hq. destruct (A6 _ Hq) as [Hx|Hx]; auto.
    right. apply (tk_avail _ _ _ _ _ _ Ht). apply -> in_rev. auto.
  - intros q Hq. destruct (A7 _ Hq) as [Hx|[Hx|Hx]]; auto.
    + left. apply (tk_mono _ _ _ _ _ _ Ht). auto.
    + left. apply (tk_avail _ _ _ _ _ _ Ht). apply -> in_rev. auto.
  - intros k. rewrite A8. auto.
Qed.

(** migration preparation: the previous physical page stays pending for ever *)
Lemma alloc_given_spec pid dv va uni s pg s' :
  cst s -> mirror s = pt s ->
  alloc_given pid dv va uni s = Some (pg, s') ->
  coreX (psz s) (devs s') (total s) (g_leaked s') (pt s') /\ mirror s' = pt s' /\
  s' = s <| devs := devs s' |> <| mirror := mirror s' |> <| pt := pt s' |> <| g_leaked := g_leaked s' |> /\
  geom (devs s') = geom (devs s) /\ map d_kind (devs s') = map d_kind (devs s) /\
  map fst (pt s') = map fst (pt s) /\ p_pid pg = pid /\ p_va pg = va /\
  pt s' = aset keqb (pid, va) pg (pt s) /\
  (forall q, In q (pas (pt s')) -> In q (pas (pt s)) \/ avail (psz s) (devs s) q) /\
  (forall d, nth_error (devs s) dv = Some d -> is_unified (d_kind d) = false -> p_dev pg = N.of_nat dv).
Proof.
  intros Hc Hm H. unfold alloc_given in H.
  destruct (alloc_page (psz s) dv (devs s)) as [[pa l']|] eqn:E1; [|congruence].
  destruct (dev_of_pa l' pa) as [di|] eqn:E2; [|congruence].
  destruct (pt_update _ _ (pt s)) as [pt'|] eqn:E3; [|congruence].
  apply pt_update_spec in E3. destruct E3 as [Hf ->]. inversion H; subst; clear H.
  destruct (alloc_page_took _ _ _ _ _ _ _ (core_phys _ Hc) E1) as [Ht _].
  pose proof (coreX_took _ _ _ _ _ _ _ Hc Ht) as Hc1.
  set (pg := mkPage pid va pa (N.of_nat di) uni) in *.
  rewrite Hm. unfold amem in Hf.
  destruct (alookup keqb (pid, va) (pt s)) as [old|] eqn:El; [|congruence].
  destruct (core_update _ _ _ (g_leaked s) (pt s) (pid, va) pg old di Hc1 El eq_refl eq_refl E2) as (Hc2 & Hsub & Hk).
  cbn. splits; auto.
  - apply (tk_geom _ _ _ _ _ _ Ht).
  - apply (tk_kind _ _ _ _ _ _ Ht).
  - intros q Hq. destruct (Hsub q Hq) as [->|Hx]; auto.
    right. apply (tk_avail _ _ _ _ _ _ Ht). cbn; auto.
  - intros d Hn Hu. f_equal.
    pose proof (alloc_page_real _ _ _ _ _ _ _ _ (core_phys _ Hc) Hn Hu E1) as Ho.
    pose proof (owned_dev_of_pa _ _ _ _ _ _ (tk_inv _ _ _ _ _ _ Ht) Ho). congruence.
Qed.

Lemma alookup_adel_same {V} k (l : list (key * V)) : alookup keqb k (adel keqb k l) = None.
Proof.
  induction l as [|[k2 v2] l IH]; cbn; auto.
  destruct (keqb k k2) eqn:E; auto. cbn. rewrite E. auto.
Qed.

Lemma remove_page_spec pid va s s' :
  cst s -> mirror s = pt s ->
  remove_page pid va s = Some s' ->
  exists pg, alookup keqb (pid, va) (pt s) = Some pg /\
  coreX (psz s) (devs s') (total s) (g_leaked s) (pt s') /\ mirror s' = pt s' /\
  s' = s <| devs := devs s' |> <| mirror := mirror s' |> <| pt := pt s' |> /\
  pt s' = adel keqb (pid, va) (pt s) /\
  geom (devs s') = geom (devs s) /\ map d_kind (devs s') = map d_kind (devs s) /\
  (forall q, avail (psz s) (devs s') q <-> avail (psz s) (devs s) q \/ q = p_pa pg).
Proof.
  intros Hc Hm H. unfold remove_page in H. rewrite Hm in H.
  destruct (alookup keqb (pid, va) (pt s)) as [pg|] eqn:E1; [|congruence].
  destruct (dev_of_pa (devs s) (p_pa pg)) as [di|] eqn:E2; [|congruence].
  destruct (pt_remove _ (pt s)) as [pt'|] eqn:E3; [|congruence].
  apply pt_remove_spec in E3. destruct E3 as [_ ->]. inversion H; subst; clear H.
  assert (Hk : (p_pid pg, p_va pg) = (pid, va)).
  { destruct Hc as (_ & _ & Hf). rewrite Forall_forall in Hf.
    apply (alookup_In keqb keqb_eq) in E1. apply Hf in E1. destruct E1 as (E & _). cbn in E. congruence. }
  rewrite Hk.
  destruct (core_remove _ _ _ _ _ _ _ Hc E1) as (C1 & C2).
  destruct (coreX_release _ _ _ _ _ _ _ C1 E2) as (C3 & C4 & C5 & C6).
  exists pg. cbn. splits; auto.
Qed.

Lemma of_nat_succ_mul j p : N.of_nat (S j) * p = p + N.of_nat j * p.
Proof. rewrite Nat2N.inj_succ, N.mul_succ_l. lia. Qed.

Lemma free_loop_spec k : forall pid va s s',
  cst s -> mirror s = pt s ->
  free_loop k pid va s = Some s' ->
  coreX (psz s) (devs s') (total s) (g_leaked s) (pt s') /\ mirror s' = pt s' /\
  s' = s <| devs := devs s' |> <| mirror := mirror s' |> <| pt := pt s' |> /\
  geom (devs s') = geom (devs s) /\ map d_kind (devs s') = map d_kind (devs s) /\
  (forall i, (i < k)%nat -> alookup keqb (pid, va + N.of_nat i * psz s) (pt s') = None /\
     exists pg, alookup keqb (pid, va + N.of_nat i * psz s) (pt s) = Some pg) /\
  (forall k', (forall i, (i < k)%nat -> k' <> (pid, va + N.of_nat i * psz s)) ->
     alookup keqb k' (pt s') = alookup keqb k' (pt s)) /\
  (forall q, avail (psz s) (devs s') q <-> avail (psz s) (devs s) q \/
     exists i pg, (i < k)%nat /\ alookup keqb (pid, va + N.of_nat i * psz s) (pt s) = Some pg /\ q = p_pa pg) /\
  (forall e, In e (pt s') -> In e (pt s)).
Proof.
  induction k as [|k IH]; cbn [free_loop]; intros pid va s s' Hc Hm H.
  - inversion H; subst. splits; auto; try (intros; lia).
    + destruct s'; reflexivity.
    + intros q. split; auto. intros [Hq|(i & pg & Hi & _)]; auto. lia.
  - destruct (remove_page pid va s) as [s1|] eqn:E; [|congruence].
    destruct (remove_page_spec _ _ _ _ Hc Hm E) as (pg & R1 & R2 & R3 & R4 & R5 & R6 & R7 & R8).
    assert (Hp : psz s1 = psz s /\ total s1 = total s /\ g_leaked s1 = g_leaked s) by (rewrite R4; destruct s; cbn; auto).
    destruct Hp as (Hp & Ht & Hlk).
    assert (Hpos := psz_pos s).
    apply IH in H; [|unfold cst; rewrite Hp, Ht, Hlk; auto|auto].
    rewrite Hp, Ht, Hlk in H. destruct H as (A1 & A2 & A3 & A4 & A5 & A6 & A7 & A8 & A9).
    assert (Hkey : forall i, (pid, va + psz s + N.of_nat i * psz s) = (pid, va + N.of_nat (S i) * psz s)).
    { intros i. rewrite of_nat_succ_mul. f_equal. lia. }
    assert (Hne : forall i, (pid, va + N.of_nat (S i) * psz s) <> (pid, va)).
    { intros i Heq. rewrite of_nat_succ_mul in Heq. inversion Heq. lia. }
    splits; auto; try congruence.
    + rewrite A3, R4. destruct s; reflexivity.
    + intros [|i] Hi.
      * replace (va + N.of_nat 0 * psz s) with va by lia. split; [|eauto].
        rewrite A7; [rewrite R5; apply alookup_adel_same|].
        intros j _. rewrite Hkey. intro Hx. symmetry in Hx. eapply Hne; eauto.
      * destruct (A6 i ltac:(lia)) as [B1 (pg' & B2)]. rewrite Hkey in B1, B2. split; auto.
        exists pg'. rewrite R5 in B2. rewrite (alookup_adel_other keqb keqb_eq) in B2; auto.
    + intros k' Hk'. rewrite A7.
      * rewrite R5. apply (alookup_adel_other keqb keqb_eq).
        specialize (Hk' 0%nat ltac:(lia)). replace (va + N.of_nat 0 * psz s) with va in Hk' by lia. auto.
      * intros i Hi. rewrite Hkey. apply Hk'. lia.
    + intros q. rewrite A8, R8. split.
      * intros [[Hq| ->]|(i & pg' & Hi & Hl & ->)]; auto.
        -- right. exists 0%nat, pg. splits; auto; try lia. replace (va + N.of_nat 0 * psz s) with va by lia. auto.
        -- right. exists (S i), pg'. splits; auto; try lia. rewrite Hkey in Hl. rewrite R5 in Hl.
           rewrite (alookup_adel_other keqb keqb_eq) in Hl; auto.
      * intros [Hq|(i & pg' & Hi & Hl & ->)]; auto. destruct i as [|i].
        -- replace (va + N.of_nat 0 * psz s) with va in Hl by lia. left. right. congruence.
        -- right. exists i, pg'. splits; auto; try lia. rewrite Hkey, R5.
           rewrite (alookup_adel_other keqb keqb_eq); auto.
    + intros e He. apply A9 in He. rewrite R5 in He. apply (adel_In keqb keqb_eq) in He. tauto.
Qed.

(** * Invariant preservation *)
Lemma Inv_ext s s' : lps s' = lps s -> devs s' = devs s -> total s' = total s -> pt s' = pt s ->
  mirror s' = mirror s -> next_va s' = next_va s -> g_bufs s' = g_bufs s -> g_leaked s' = g_leaked s ->
  Inv s -> Inv s'.
Proof.
  intros E1 E2 E3 E4 E5 E6 E7 E8. unfold Inv, cst, bufs_ok, next_va_of, psz.
  rewrite E1, E2, E3, E4, E5, E6, E7, E8. auto.
Qed.

Definition handout (s s' : st) : Prop :=
  forall pa, In pa (pas (pt s')) -> In pa (pas (pt s)) \/ avail (psz s) (devs s) pa.

Lemma grow_Inv s s' : Inv s -> grow s s' -> Inv s' /\ handout s s'.
Proof.
  intros (I1 & I2 & I3 & I4) [A1 A2 A3 A4 A5 A6 A7 A8]. split; [|exact A6].
  assert (E : lps s' = lps s /\ total s' = total s /\ next_va s' = next_va s /\ g_bufs s' = g_bufs s /\
              g_leaked s' = g_leaked s)
    by (rewrite A3; destruct s; cbn; auto).
  destruct E as (E1 & E2 & E3 & E4 & E5).
  unfold Inv, cst, bufs_ok, next_va_of, psz in *. rewrite E1, E2, E3, E4, E5. auto.
Qed.

Lemma Forall_aset {K V} eqb (P : K * V -> Prop) k v l : Forall P l -> P (k, v) -> Forall P (aset eqb k v l).
Proof.
  intros H Hp. induction H as [|[k' v'] l Hx Hl IH]; cbn; auto.
  destruct (eqb k k'); constructor; auto.
Qed.

Lemma FOP_snoc {A} (R : A -> A -> Prop) l x : ForallOrdPairs R l -> Forall (fun a => R a x) l ->
  ForallOrdPairs R (l ++ [x]).
Proof.
  induction 1; cbn; intros Hf.
  - constructor; constructor.
  - inversion Hf; subst. constructor; auto. apply Forall_app. split; auto.
Qed.

Lemma next_va_aligned s pid : Forall (fun e => (psz s | snd e)) (next_va s) -> (psz s | next_va_of s pid).
Proof.
  intros H. unfold next_va_of. destruct (alookup N.eqb pid (next_va s)) as [v|] eqn:E.
  - apply (alookup_In N.eqb Neqb_eq') in E. rewrite Forall_forall in H. apply H in E. auto.
  - apply N.divide_refl.
Qed.

Lemma alloc_pages_Inv n pid dv uni s va s2 : Inv s -> alloc_pages n pid dv uni s = Some (va, s2) ->
  Inv s2 /\ handout s s2 /\ ctxs s2 = ctxs s /\ crashed s2 = crashed s /\ lps s2 = lps s /\
  next_pid s2 = next_pid s /\ (psz s | va) /\ va = next_va_of s pid /\
  g_bufs s2 = g_bufs s ++ [((pid, va), n)].
Proof.
  intros HI H. unfold alloc_pages in H.
  destruct (alloc_loop _ _ _ _ _ s) as [s1|] eqn:E; [|congruence]. inversion H; subst; clear H.
  pose proof HI as (I1 & I2 & I3 & I4).
  pose proof (next_va_aligned s pid I3) as Hal.
  apply alloc_loop_grow in E; auto.
  destruct (grow_Inv _ _ HI E) as [(J1 & J2 & J3 & J4) Hh].
  assert (F : lps s1 = lps s /\ total s1 = total s /\ next_va s1 = next_va s /\ g_bufs s1 = g_bufs s /\
              ctxs s1 = ctxs s /\ crashed s1 = crashed s /\ next_pid s1 = next_pid s)
    by (rewrite (gr_frame _ _ E); destruct s; cbn; splits; auto).
  destruct F as (F1 & F2 & F3 & F4 & F5 & F6 & F7).
  assert (Hp : psz s1 = psz s) by (unfold psz; congruence).
  set (va := next_va_of s pid) in *.
  cbn. splits; auto; try congruence.
  unfold Inv, bufs_ok, next_va_of, psz in *. cbn. rewrite F1 in *. fold (psz s) in *.
  splits; auto.
  - apply Forall_aset; auto. cbn. apply N.divide_add_r; auto. apply N.divide_mul_l. apply N.divide_refl.
  - destruct J4 as [B1 B2]. rewrite F4 in *. apply Forall_app. split.
    + eapply Forall_impl; [|exact B1]. cbn. intros b [Hb1 Hb2]. split; auto.
      rewrite (alookup_aset N.eqb Neqb_eq'). destruct (buf_pid b =? pid) eqn:Eq.
      * apply N.eqb_eq in Eq. rewrite Eq in Hb2. rewrite F3 in Hb2. subst va. unfold next_va_of. lia.
      * exact Hb2.
    + constructor; [|constructor]. unfold buf_lo, buf_hi, buf_pid. cbn. split; auto.
      rewrite (alookup_aset N.eqb Neqb_eq'). rewrite N.eqb_refl. lia.
  - destruct J4 as [B1 B2]. rewrite F4 in *. apply FOP_snoc; auto.
    eapply Forall_impl; [|exact B1]. cbn. intros b [Hb1 Hb2] Heq. left.
    unfold buf_pid, buf_lo in *. cbn in *. rewrite Heq, F3 in Hb2. subst va. unfold next_va_of. exact Hb2.
Qed.

Lemma grow_cst s s' : grow s s' -> cst s'.
Proof.
  intros G. destruct (frame3_fields _ _ (gr_frame _ _ G)) as (Hp & Ht & Hl).
  unfold cst. rewrite Hp, Ht, Hl. apply (gr_core _ _ G).
Qed.

Lemma remap_all_grow pid ids : forall calls s s',
  cst s -> mirror s = pt s ->
  remap_all pid ids calls s = Some s' -> grow s s'.
Proof.
  induction calls as [|[[a b] i] r IH]; cbn [remap_all]; intros s s' Hc Hm H.
  - inversion H; subst. apply grow_refl; auto.
  - destruct (nth_error ids (N.to_nat i)) as [dv|]; [|congruence].
    destruct (remap pid a b (N.to_nat dv) s) as [s1|] eqn:E; [|congruence].
    apply remap_grow in E; auto. destruct E as [G _].
    eapply grow_trans; [exact G|].
    apply IH; auto.
    + apply (grow_cst _ _ G).
    + apply (gr_mirror _ _ G).
Qed.

Lemma free_Inv pid ptr s s' : Inv s -> free pid ptr s = Some s' ->
  Inv s' /\ (forall e, In e (pt s') -> In e (pt s)) /\ ctxs s' = ctxs s /\ crashed s' = crashed s.
Proof.
  intros (I1 & I2 & I3 & I4) H. unfold free in H.
  destruct (alookup keqb (pid, ptr) (allocs s)) as [n|]; [|congruence].
  apply free_loop_spec in H; cbn; auto.
  cbn in H. destruct H as (A1 & A2 & A3 & A4 & A5 & A6 & A7 & A8 & A9).
  assert (F : lps s' = lps s /\ total s' = total s /\ next_va s' = next_va s /\ g_bufs s' = g_bufs s /\
              ctxs s' = ctxs s /\ crashed s' = crashed s /\ g_leaked s' = g_leaked s)
    by (rewrite A3; destruct s; cbn; splits; auto).
  destruct F as (F1 & F2 & F3 & F4 & F5 & F6 & F7). splits; auto.
  unfold Inv, cst, bufs_ok, next_va_of, psz in *. rewrite F1, F2, F3, F4, F7. auto.
Qed.

(** * Initial state *)
Definition devs_ok (ps : N) (s : st) : Prop :=
  phys_inv ps (devs s) (total s) [] /\ pt s = [] /\ mirror s = [] /\ next_va s = [] /\ g_bufs s = [] /\
  crashed s = false /\ psz s = ps /\ g_leaked s = [].

Lemma layout_snoc l : forall start tot d, layout start l tot -> d_base d = tot ->
  layout start (l ++ [d]) (tot + d_size d).
Proof.
  induction l; cbn; intros start tot d H Hb.
  - subst. auto.
  - destruct H as [H1 H2]. split; auto.
Qed.

Lemma phys_add_dev ps l tot live k size mem nx : phys_inv ps l tot live -> (ps | size) ->
  phys_inv ps (l ++ [mkDev k tot size tot [] mem nx]) (tot + size) live.
Proof.
  intros (H1 & H2 & H3 & H4 & H5 & H6 & H7) Hs. unfold phys_inv. splits; auto.
  - apply N.divide_add_r; auto.
  - apply (layout_snoc l ps tot (mkDev k tot size tot [] mem nx)); auto.
  - apply Forall_app. split; auto. constructor; auto.
    unfold dev_wf, d_hi; cbn. splits; auto; try lia. constructor.
  - intros p Hp. destruct (H6 p Hp) as (Ha & i & d & Hn & Ht). split; auto.
    exists i, d. split; auto. rewrite nth_error_app1; auto. eapply nth_error_lt; eauto.
  - intros i d q Hi Hq Ht. destruct (Nat.lt_ge_cases i (length l)) as [Hlt|Hge].
    + rewrite nth_error_app1 in Hi by auto. eapply H7; eauto.
    + rewrite nth_error_app2 in Hi by auto. destruct (i - length l)%nat as [|j]; cbn in Hi.
      * inversion Hi; subst. unfold taken in Ht. cbn in Ht. lia.
      * destruct j; cbn in Hi; congruence.
Qed.

Lemma reg_dev_ok ps k size s : devs_ok ps s -> (ps | size) -> devs_ok ps (reg_dev k size s).
Proof.
  intros (H1 & H2 & H3 & H4 & H5 & H6 & H7 & H8) Hs. unfold devs_ok, reg_dev. cbn. splits; auto.
  apply phys_add_dev; auto.
Qed.

Lemma init_ok l gpus : l <= 32 -> devs_ok (2 ^ l) (init l gpus).
Proof.
  intros Hl. unfold init.
  assert (H0 : devs_ok (2 ^ l) (reg_dev KCpu CPU_BYTES (mkSt l [] (2 ^ l) [] [] [] [] [] 0 false [] []))).
  { apply reg_dev_ok.
    - unfold devs_ok, phys_inv. cbn. splits; auto.
      + apply N.neq_0_lt_0. apply N.pow_nonzero. lia.
      + apply N.divide_refl.
      + constructor.
      + intros p [].
      + intros i d q Hi. destruct i; cbn in Hi; congruence.
    - unfold CPU_BYTES. exists (2 ^ (32 - l)). change (4 * 2 ^ 30) with (2 ^ 32).
      rewrite <- N.pow_add_r. f_equal. lia. }
  revert H0. generalize (reg_dev KCpu CPU_BYTES (mkSt l [] (2 ^ l) [] [] [] [] [] 0 false [] [])).
  induction gpus as [|n gpus IH]; cbn; intros s Hs; auto.
  apply IH. apply reg_dev_ok; auto. apply N.divide_factor_r.
Qed.

Lemma init_Inv l gpus : l <= 32 -> Inv (init l gpus) /\ crashed (init l gpus) = false.
Proof.
  intros Hl. destruct (init_ok l gpus Hl) as (H1 & H2 & H3 & H4 & H5 & H6 & H7 & H8).
  split; auto. unfold Inv, cst, coreX, bufs_ok. rewrite H2, H3, H4, H5, H7, H8. cbn. splits; auto; constructor.
Qed.

(** * One API call *)
Definition op_guard (s : st) (o : op) : Prop :=
  match o with
  | OMig c va gpu => forall d, nth_error (devs s) (N.to_nat (gpu + 1)) = Some d -> is_unified (d_kind d) = false
  | _ => True
  end.

Lemma handout_same s s' : pt s' = pt s -> handout s s'.
Proof. intros E p Hp. rewrite E in Hp. auto. Qed.

Lemma set_ctx_Inv i c s : Inv s -> Inv (set_ctx i c s).
Proof. apply Inv_ext; reflexivity. Qed.

Lemma aset_idem {K V} eqb (eqb_refl : forall k : K, eqb k k = true) (k : K) (v : V) l :
  aset eqb k v (aset eqb k v l) = aset eqb k v l.
Proof.
  induction l as [|[k' v'] l IH]; cbn.
  - rewrite eqb_refl. auto.
  - destruct (eqb k k') eqn:E; cbn.
    + rewrite eqb_refl. auto.
    + rewrite E. f_equal. auto.
Qed.

Lemma unify_Inv s ids : Inv s ->
  Inv (s <| devs := devs s ++ [mkDev KUnified (total s) 0 (total s) [] ids 0] |>).
Proof.
  intros ((P & K & E) & I2 & I3 & B1 & B2). unfold Inv, cst, bufs_ok, next_va_of, psz, core, coreX in *. cbn in *.
  splits; auto.
  - pose proof (phys_add_dev _ _ _ _ KUnified 0 ids 0%nat P (N.divide_0_r _)) as H.
    rewrite N.add_0_r in H. exact H.
  - eapply Forall_impl; [|exact E]. intros e (E1 & E2 & di & E3 & E4). unfold entry_ok. splits; auto.
    exists di. split; auto. apply dev_of_pa_app; auto.
Qed.

Lemma distribute_grow pid addr bytes ids s res s' : Inv s ->
  distribute pid addr bytes ids s = Some (res, s') -> grow s s'.
Proof.
  intros (I1 & I2 & I3 & I4) H. unfold distribute in H.
  assert (G0 : grow s s) by (apply grow_refl; auto).
  assert (Hgen : (if negb (addr mod psz s =? 0) then None
           else if (length ids =? 0)%nat then None
           else if bytes =? 0 then None
           else let '(calls, res) := dist_plan (psz s) addr bytes (N.of_nat (length ids)) in
                match remap_all pid ids calls s with
                | None => None
                | Some s' => Some (res, s')
                end) = Some (res, s') -> grow s s').
  { intros H'. destruct (negb _); [congruence|]. destruct (_ =? _)%nat; [congruence|].
    destruct (bytes =? 0); [congruence|].
    destruct (dist_plan _ _ _ _) as [calls r].
    destruct (remap_all pid ids calls s) as [s1|] eqn:E; [|congruence]. inversion H'; subst.
    eapply remap_all_grow; eauto. }
  destruct ids as [|a [|b r]]; auto. inversion H; subst. auto.
Qed.

Theorem step_spec s o : Inv s -> crashed s = false -> op_guard s o ->
  crashed (fst (step s o)) = false -> Inv (fst (step s o)) /\ handout s (fst (step s o)).
Proof.
  intros HI Hc Hg Hnc. unfold step in *. rewrite Hc in *.
  destruct o; unfold with_ctx in *; cbn [fst] in *.
  - (* OInit *) split; [eapply Inv_ext; [..|exact HI]; reflexivity | apply handout_same; reflexivity].
  - (* OInitPid *) destruct (nth_error (ctxs s) (N.to_nat c)); cbn [fst] in *;
      (split; [eapply Inv_ext; [..|exact HI]; reflexivity | apply handout_same; reflexivity]).
  - (* OUnify *) destruct (length ids =? 0)%nat; [cbn in Hnc; congruence|].
    destruct (negb (all_gpus (devs s) ids)); [cbn in Hnc; congruence|]. cbn [fst] in *.
    split; [apply unify_Inv; auto | apply handout_same; reflexivity].
  - (* OSelect *) destruct (nth_error (ctxs s) (N.to_nat c)); cbn [fst] in *; [|split; auto; apply handout_same; auto].
    destruct (length (devs s) <=? N.to_nat d)%nat; [cbn in Hnc; congruence|]. cbn [fst] in *.
    split; [apply set_ctx_Inv; auto | apply handout_same; reflexivity].
  - (* OAlloc *) destruct (nth_error (ctxs s) (N.to_nat c)) as [x|]; cbn [fst] in *; [|split; auto; apply handout_same; auto].
    unfold allocate in *. destruct (bytes =? 0); [cbn in Hnc; congruence|].
    destruct (alloc_pages _ _ _ _ s) as [[ptr s']|] eqn:E; [|cbn in Hnc; congruence]. cbn [fst] in *.
    destruct (alloc_pages_Inv _ _ _ _ _ _ _ HI E) as (A1 & A2 & _). split; [apply set_ctx_Inv; auto|exact A2].
  - (* OAllocU *) destruct (nth_error (ctxs s) (N.to_nat c)) as [x|]; cbn [fst] in *; [|split; auto; apply handout_same; auto].
    unfold allocate in *. destruct (bytes =? 0); [cbn in Hnc; congruence|].
    destruct (alloc_pages _ _ _ _ s) as [[ptr s']|] eqn:E; [|cbn in Hnc; congruence]. cbn [fst] in *.
    destruct (alloc_pages_Inv _ _ _ _ _ _ _ HI E) as (A1 & A2 & _). split; [apply set_ctx_Inv; auto|exact A2].
  - (* OFree *) destruct (nth_error (ctxs s) (N.to_nat c)) as [x|]; cbn [fst] in *; [|split; auto; apply handout_same; auto].
    destruct (free (c_pid x) ptr s) as [s'|] eqn:E; [|cbn in Hnc; congruence]. cbn [fst] in *.
    destruct (free_Inv _ _ _ _ HI E) as (A1 & A2 & _). split; [apply set_ctx_Inv; auto|].
    intros p Hp. left. cbn in Hp. unfold pas in *. apply in_map_iff in Hp. destruct Hp as (e & <- & He).
    apply (in_map (fun e => p_pa (snd e))). auto.
  - (* ORemap *) destruct (nth_error (ctxs s) (N.to_nat c)) as [x|]; cbn [fst] in *; [|split; auto; apply handout_same; auto].
    destruct (remap (c_pid x) addr bytes (N.to_nat d) s) as [s'|] eqn:E; [|cbn in Hnc; congruence]. cbn [fst] in *.
    pose proof HI as (I1 & I2 & _). apply remap_grow in E; auto. destruct E as [G _]. apply grow_Inv; auto.
  - (* ODist *) destruct (nth_error (ctxs s) (N.to_nat c)) as [x|]; cbn [fst] in *; [|split; auto; apply handout_same; auto].
    destruct (distribute (c_pid x) addr bytes ids s) as [[res s']|] eqn:E; [|cbn in Hnc; congruence]. cbn [fst] in *.
    apply distribute_grow in E; auto. apply grow_Inv; auto.
  - (* OMig *) destruct (nth_error (ctxs s) (N.to_nat c)) as [x|]; cbn [fst] in *; [|split; auto; apply handout_same; auto].
    destruct (pt_find s (c_pid x) va) as [old|]; [|cbn in Hnc; congruence].
    destruct (alloc_given (c_pid x) (N.to_nat (gpu + 1)) va true s) as [[pg s']|] eqn:E; [|cbn in Hnc; congruence].
    pose proof HI as (I1 & I2 & I3 & B1 & B2).
    destruct (alloc_given_spec _ _ _ _ _ _ _ I1 I2 E) as (G1 & G2 & G3 & G4 & G5 & Hk & Hpid & Hva & Hpt & Hnew & Hdev).
    assert (F : lps s' = lps s /\ total s' = total s /\ next_va s' = next_va s /\ g_bufs s' = g_bufs s)
      by (rewrite G3; destruct s; cbn; auto).
    destruct F as (F1 & F2 & F3 & F4).
    assert (J : Inv s').
    { unfold Inv, cst, bufs_ok, next_va_of, psz in *. rewrite F1, F2, F3, F4. splits; auto. }
    assert (Hd : p_dev pg = gpu + 1).
    { destruct (nth_error (devs s) (N.to_nat (gpu + 1))) as [d|] eqn:En.
      - rewrite (Hdev d eq_refl (Hg d En)). apply N2Nat.id.
      - unfold alloc_given, alloc_page in E. rewrite En in E. congruence. }
    assert (Hpg : mkPage (p_pid pg) (p_va pg) (p_pa pg) (gpu + 1) (p_unified pg) = pg)
      by (destruct pg; cbn in *; congruence).
    rewrite Hpg in *. rewrite Hpid, Hva in *.
    unfold pt_update in *. rewrite Hpt in Hnc |- *.
    destruct (amem keqb (c_pid x, va) (aset keqb (c_pid x, va) pg (pt s))); [|cbn in Hnc; congruence].
    cbn [fst] in *. rewrite (aset_idem keqb keqb_refl). rewrite <- Hpt.
    split.
    + eapply Inv_ext; [..|exact J]; reflexivity.
    + intros p Hp. apply Hnew. exact Hp.
  - (* ORmFreed *) destruct (nth_error (ctxs s) (N.to_nat c)); cbn [fst] in *; [|split; auto; apply handout_same; auto].
    split; [apply set_ctx_Inv; auto | apply handout_same; reflexivity].
Qed.

(** * Histories *)
Definition Good (s : st) : Prop := crashed s = true \/ Inv s.

Fixpoint guarded (s : st) (ops : list op) : Prop :=
  match ops with
  | [] => True
  | o :: r => op_guard s o /\ guarded (fst (step s o)) r
  end.

Lemma step_good s o : Good s -> op_guard s o -> Good (fst (step s o)).
Proof.
  intros [Hc|HI] Hg.
  - left. unfold step. rewrite Hc. auto.
  - destruct (crashed s) eqn:Hc; [left; unfold step; rewrite Hc; auto|].
    destruct (crashed (fst (step s o))) eqn:Hn; [left; auto|]. right.
    apply step_spec; auto.
Qed.

Lemma run_good ops : forall s, Good s -> guarded s ops -> Good (run s ops).
Proof.
  induction ops as [|o r IH]; cbn; intros s H Hg; auto.
  destruct Hg. apply IH; auto. apply step_good; auto.
Qed.

Lemma run_app s a b : run s (a ++ b) = run (run s a) b.
Proof. unfold run. apply fold_left_app. Qed.

(** * What the invariant says, spelled out *)
Lemma Inv_pages s k pg : Inv s -> In (k, pg) (pt s) ->
  k = (p_pid pg, p_va pg) /\ (psz s | p_va pg) /\ (psz s | p_pa pg) /\
  (exists di d, p_dev pg = N.of_nat di /\ nth_error (devs s) di = Some d /\
                d_base d <= p_pa pg < d_base d + d_size d /\ d_base d <= p_pa pg < d_lo d /\
                ~ In (p_pa pg) (d_tail d)) /\
  ~ avail (psz s) (devs s) (p_pa pg).
Proof.
  intros ((P & K & E) & _) Hin. rewrite Forall_forall in E. destruct (E _ Hin) as (E1 & E2 & di & E3 & E4).
  cbn in *. assert (Hp : In (p_pa pg) (pas (pt s))) by (unfold pas; apply (in_map (fun e => p_pa (snd e)) _ _ Hin)).
  pose proof P as (_ & _ & _ & W & _ & L & _).
  destruct (L _ (proj2 (in_app_iff _ _ _) (or_intror Hp))) as (Ha & i & d & Hn & Ht).
  assert (i = di).
  { assert (Ho : owned (devs s) (p_pa pg) i) by (exists d; auto).
    pose proof (owned_dev_of_pa _ _ _ _ _ _ P Ho). congruence. }
  subst i. splits; auto.
  - rewrite Forall_forall in W. pose proof (taken_in_range _ _ _ (W d (nth_error_In _ _ Hn)) Ht) as Hr.
    unfold d_hi in Hr. exists di, d. splits; auto; try apply Ht; lia.
  - intros Hav. eapply avail_not_live; eauto. apply in_app_iff. auto.
Qed.

Lemma Inv_distinct s : Inv s -> NoDup (pas (pt s)) /\ NoDup (map fst (pt s)).
Proof. intros ((P & K & E) & _). destruct P as (_ & _ & _ & _ & N & _). apply NoDup_app_r in N. auto. Qed.

Lemma Inv_free_lists s i d : Inv s -> nth_error (devs s) i = Some d ->
  NoDup (d_tail d) /\ (forall p, is_free (psz s) d p -> (psz s | p) /\ d_base d <= p < d_base d + d_size d).
Proof.
  intros ((P & _) & _) Hn. destruct P as (_ & _ & _ & W & _). rewrite Forall_forall in W.
  pose proof (W d (nth_error_In _ _ Hn)) as Hw. pose proof Hw as (Hb & Hs & Hl & Hbl & Hlh & Hnd & Hf).
  split; auto. intros p Hp. split.
  - destruct Hp as [[_ Ha]|Hin]; auto. rewrite Forall_forall in Hf. apply Hf in Hin. tauto.
  - pose proof (free_in_range _ _ _ Hw Hp). unfold d_hi in *. lia.
Qed.

Lemma FOP_In {A} (R : A -> A -> Prop) l : ForallOrdPairs R l -> (forall a b, R a b -> R b a) ->
  forall i j a b, i <> j -> nth_error l i = Some a -> nth_error l j = Some b -> R a b.
Proof.
  intros H Hsym. induction H as [|x l Hx Hl IH]; intros i j a b Hne Hi Hj.
  - destruct i; cbn in Hi; congruence.
  - rewrite Forall_forall in Hx. destruct i, j; cbn in *; try congruence.
    + inversion Hi; subst. apply Hx. eapply nth_error_In; eauto.
    + inversion Hj; subst. apply Hsym. apply Hx. eapply nth_error_In; eauto.
    + eapply (IH i j); eauto.
Qed.

Lemma Inv_buffers s : Inv s ->
  (forall b, In b (g_bufs s) -> (psz s | buf_lo b)) /\
  (forall i j a b, i <> j -> nth_error (g_bufs s) i = Some a -> nth_error (g_bufs s) j = Some b ->
     buf_pid a = buf_pid b -> buf_hi (psz s) a <= buf_lo b \/ buf_hi (psz s) b <= buf_lo a).
Proof.
  intros (_ & _ & _ & B1 & B2). split.
  - intros b Hb. rewrite Forall_forall in B1. apply B1 in Hb. tauto.
  - intros i j a b Hne Hi Hj. eapply (FOP_In _ _ B2); eauto.
    intros x y H Heq. symmetry in Heq. apply H in Heq. tauto.
Qed.

(** * Free *)
Theorem free_spec s c x ptr : Inv s -> crashed s = false ->
  nth_error (ctxs s) (N.to_nat c) = Some x ->
  let s' := fst (step s (OFree c ptr)) in
  crashed s' = false ->
  exists n, alookup keqb (c_pid x, ptr) (allocs s) = Some n /\
    (forall i, i < n -> exists pg,
        alookup keqb (c_pid x, ptr + i * psz s) (pt s) = Some pg /\
        alookup keqb (c_pid x, ptr + i * psz s) (pt s') = None /\
        alookup keqb (c_pid x, ptr + i * psz s) (mirror s') = None /\
        avail (psz s) (devs s') (p_pa pg)) /\
    (forall k, (forall i, i < n -> k <> (c_pid x, ptr + i * psz s)) ->
        alookup keqb k (pt s') = alookup keqb k (pt s)) /\
    (forall q, avail (psz s) (devs s') q <->
        avail (psz s) (devs s) q \/
        exists i pg, i < n /\ alookup keqb (c_pid x, ptr + i * psz s) (pt s) = Some pg /\ q = p_pa pg).
Proof.
  intros HI Hc Hx s' Hnc. subst s'. unfold step in *. rewrite Hc in *. unfold with_ctx in *. rewrite Hx in *.
  destruct (free (c_pid x) ptr s) as [s1|] eqn:E; [|cbn in Hnc; congruence]. cbn [fst] in *.
  unfold free in E. destruct (alookup keqb (c_pid x, ptr) (allocs s)) as [n|]; [|congruence].
  exists n. split; auto. pose proof HI as (I1 & I2 & _).
  apply free_loop_spec in E; cbn; auto. cbn in E.
  destruct E as (A1 & A2 & A3 & A4 & A5 & A6 & A7 & A8 & A9).
  assert (Hnat : forall i, i < n -> (N.to_nat i < N.to_nat n)%nat /\ N.of_nat (N.to_nat i) = i)
    by (intros; split; [lia|apply N2Nat.id]).
  splits.
  - intros i Hi. destruct (Hnat i Hi) as [H1 H2]. destruct (A6 _ H1) as [B1 (pg & B2)].
    rewrite H2 in *. exists pg. splits; auto; [rewrite A2; auto|].
    apply A8. right. exists (N.to_nat i), pg. rewrite H2. auto.
  - intros k Hk. apply A7. intros i Hi. specialize (Hk (N.of_nat i) ltac:(lia)). auto.
  - intros q. rewrite A8. split; (intros [Hq|(i & pg & Hi & Hl & ->)]; [auto|right]).
    + exists (N.of_nat i), pg. splits; auto. lia.
    + destruct (Hnat i Hi) as [H1 H2]. exists (N.to_nat i), pg. rewrite H2. auto.
Qed.

(** executable form of [guarded], for concrete histories *)
Definition op_guardb (s : st) (o : op) : bool :=
  match o with
  | OMig c va gpu => match nth_error (devs s) (N.to_nat (gpu + 1)) with
                     | Some d => negb (is_unified (d_kind d))
                     | None => true
                     end
  | _ => true
  end.

Fixpoint guardedb (s : st) (ops : list op) : bool :=
  match ops with
  | [] => true
  | o :: r => op_guardb s o && guardedb (fst (step s o)) r
  end.

Lemma guardedb_ok ops : forall s, guardedb s ops = true -> guarded s ops.
Proof.
  induction ops as [|o r IH]; cbn [guardedb guarded]; intros s H; auto.
  apply andb_true_iff in H. destruct H as [H1 H2]. split; auto.
  destruct o; cbn; auto. intros d Hd. cbn in H1. rewrite Hd in H1. destruct (is_unified (d_kind d)); auto.
Qed.

(** * Crash freedom within capacity *)
Lemma free_count_aligned ps d : 0 < ps -> dev_wf ps d ->
  exists m, d_hi d = d_lo d + m * ps /\ free_count ps d = m + N.of_nat (length (d_tail d)).
Proof.
  intros Hps (Hb & Hs & Hl & Hbl & Hlh & _).
  assert (Hh : (ps | d_hi d)) by (apply N.divide_add_r; auto).
  destruct Hl as [x Hx]. destruct Hh as [y Hy]. exists (y - x).
  assert (x <= y) by nia. split; [nia|]. unfold free_count.
  destruct (d_lo d <? d_hi d) eqn:E.
  - f_equal. apply N.ltb_lt in E. replace (d_hi d - d_lo d + ps - 1) with ((y - x) * ps + (ps - 1)) by nia.
    rewrite N.div_add_l by lia. rewrite N.div_small by lia. lia.
  - apply N.ltb_ge in E. assert (y = x) by nia. subst. f_equal. lia.
Qed.

Lemma dev_pop_count ps d : 0 < ps -> dev_wf ps d -> 1 <= free_count ps d ->
  exists p d', dev_pop ps d = Some (p, d') /\ free_count ps d = free_count ps d' + 1.
Proof.
  intros Hps Hwf Hc. destruct (free_count_aligned ps d Hps Hwf) as (m & Hm & Hf).
  unfold dev_pop. destruct (d_lo d <? d_hi d) eqn:E.
  - eexists _, _. split; [reflexivity|]. apply N.ltb_lt in E.
    assert (Hwf' : dev_wf ps (d <| d_lo := d_lo d + ps |>)).
    { eapply (dev_pop_spec ps d); eauto. unfold dev_pop. apply N.ltb_lt in E. rewrite E. reflexivity. }
    destruct (free_count_aligned ps _ Hps Hwf') as (m' & Hm' & Hf'). unfold d_hi in *. cbn in *.
    rewrite Hf, Hf'. assert (m = m' + 1) by nia. lia.
  - apply N.ltb_ge in E. assert (m = 0) by nia. subst m.
    destruct (d_tail d) as [|p r] eqn:Et; [cbn in Hf; lia|].
    eexists _, _. split; [reflexivity|]. unfold free_count, d_hi in *. cbn. rewrite Et in *.
    apply N.ltb_ge in E. rewrite E. cbn [length]. lia.
Qed.

(** keys entered by the allocation loop *)
Lemma alloc_loop_keys k : forall pid va dv uni s s', alloc_loop k pid va dv uni s = Some s' ->
  map fst (pt s') = map fst (pt s) ++ map (fun i => (pid, va + N.of_nat i * psz s)) (seq 0 k) /\ psz s' = psz s.
Proof.
  induction k as [|k IH]; cbn [alloc_loop]; intros pid va dv uni s s' H.
  - inversion H; subst. cbn. rewrite app_nil_r. auto.
  - destruct (alloc_page (psz s) dv (devs s)) as [[pa l']|]; [|congruence].
    destruct (dev_of_pa l' pa) as [di|]; [|congruence].
    destruct (pt_insert _ _ (pt s)) as [pt'|] eqn:E3; [|congruence].
    apply pt_insert_spec in E3. destruct E3 as [_ ->].
    apply IH in H. cbn in H. destruct H as [H Hp]. split; auto. rewrite H. rewrite map_app. cbn [map seq].
    rewrite <- app_assoc. f_equal. cbn. f_equal.
    + f_equal. lia.
    + rewrite <- seq_shift, map_map. apply map_ext. intros i. f_equal. rewrite of_nat_succ_mul. unfold psz. cbn. lia.
Qed.

Definition allocs_ok (s : st) : Prop :=
  Forall (fun b => 1 <= snd b /\ buf_hi (psz s) b <= next_va_of s (buf_pid b) /\
                   forall i, i < snd b -> amem keqb (buf_pid b, buf_lo b + i * psz s) (pt s) = true) (allocs s) /\
  ForallOrdPairs (fun a b => buf_pid a = buf_pid b ->
                    buf_hi (psz s) a <= buf_lo b \/ buf_hi (psz s) b <= buf_lo a) (allocs s).

Definition keys_below (s : st) : Prop :=
  Forall (fun k => snd k + psz s <= next_va_of s (fst k)) (map fst (pt s)).

Definition Inv2 (s : st) : Prop := Inv s /\ allocs_ok s /\ keys_below s.

Lemma remap_all_keys pid ids : forall calls s s',
  cst s -> mirror s = pt s ->
  remap_all pid ids calls s = Some s' -> map fst (pt s') = map fst (pt s).
Proof.
  induction calls as [|[[a b] i] r IH]; cbn [remap_all]; intros s s' Hc Hm H.
  - inversion H; subst. auto.
  - destruct (nth_error ids (N.to_nat i)) as [dv|]; [|congruence].
    destruct (remap pid a b (N.to_nat dv) s) as [s1|] eqn:E; [|congruence].
    apply remap_grow in E; auto. destruct E as [G Hk].
    rewrite <- Hk. apply IH; auto.
    + apply (grow_cst _ _ G).
    + apply (gr_mirror _ _ G).
Qed.

Lemma distribute_keys pid addr bytes ids s res s' : Inv s ->
  distribute pid addr bytes ids s = Some (res, s') -> map fst (pt s') = map fst (pt s).
Proof.
  intros (I1 & I2 & I3 & I4) H. unfold distribute in H.
  assert (Hgen : (if negb (addr mod psz s =? 0) then None
           else if (length ids =? 0)%nat then None
           else if bytes =? 0 then None
           else let '(calls, res) := dist_plan (psz s) addr bytes (N.of_nat (length ids)) in
                match remap_all pid ids calls s with
                | None => None
                | Some s' => Some (res, s')
                end) = Some (res, s') -> map fst (pt s') = map fst (pt s)).
  { intros H'. destruct (negb _); [congruence|]. destruct (_ =? _)%nat; [congruence|].
    destruct (bytes =? 0); [congruence|].
    destruct (dist_plan _ _ _ _) as [calls r].
    destruct (remap_all pid ids calls s) as [s1|] eqn:E; [|congruence]. inversion H'; subst.
    eapply remap_all_keys; eauto. }
  destruct ids as [|a [|b r]]; auto. inversion H; subst. auto.
Qed.

Lemma Inv2_same_keys s s' : allocs_ok s /\ keys_below s ->
  lps s' = lps s -> next_va s' = next_va s -> allocs s' = allocs s -> map fst (pt s') = map fst (pt s) ->
  allocs_ok s' /\ keys_below s'.
Proof.
  intros [[A1 A2] K] E1 E2 E3 E4. unfold allocs_ok, keys_below, next_va_of, psz in *.
  rewrite E1, E2, E3, E4. split; auto. split; auto.
  eapply Forall_impl; [|exact A1]. cbn. intros b (B1 & B2 & B3). splits; auto.
  intros i Hi. specialize (B3 i Hi). apply (amem_true_iff keqb keqb_eq) in B3.
  apply (amem_true_iff keqb keqb_eq). rewrite E4. auto.
Qed.

Lemma grow_fields s s' : grow s s' ->
  lps s' = lps s /\ next_va s' = next_va s /\ allocs s' = allocs s /\ ctxs s' = ctxs s /\ crashed s' = crashed s.
Proof. intros G. rewrite (gr_frame _ _ G). destruct s; cbn. auto. Qed.

Lemma FOP_adel {V} (R : key * V -> key * V -> Prop) k l : ForallOrdPairs R l -> ForallOrdPairs R (adel keqb k l).
Proof.
  induction 1 as [|[k' v'] l Hx Hl IH]; cbn; [constructor|].
  destruct (keqb k k'); auto. constructor; auto.
  rewrite Forall_forall in *. intros x Hin. apply (adel_In keqb keqb_eq) in Hin. apply Hx. tauto.
Qed.

Lemma In_nth_error' {A} (l : list A) x : In x l -> exists i, nth_error l i = Some x.
Proof. apply In_nth_error. Qed.

Lemma num_pages_pos ps b : 1 <= num_pages ps b.
Proof. unfold num_pages. generalize ((b - 1) / ps). intros; lia. Qed.

Lemma alloc_pages_Inv2 n pid dv uni s va s2 : Inv2 s -> 1 <= n ->
  alloc_pages n pid dv uni s = Some (va, s2) -> allocs_ok s2 /\ keys_below s2.
Proof.
  intros (HI & [A1 A2] & K) Hn H.
  destruct (alloc_pages_Inv _ _ _ _ _ _ _ HI H) as (_ & _ & _ & _ & Hl & _ & Hal & Hva & _).
  unfold alloc_pages in H.
  destruct (alloc_loop _ _ _ _ _ s) as [s1|] eqn:E; [|congruence]. inversion H; subst; clear H.
  pose proof HI as (I1 & I2 & I3 & I4).
  destruct (alloc_loop_keys _ _ _ _ _ _ _ E) as [Hk Hp].
  apply alloc_loop_grow in E; auto; try (apply next_va_aligned; auto).
  destruct (grow_fields _ _ E) as (F1 & F2 & F3 & _).
  set (va := next_va_of s pid) in *.
  assert (Hpos := psz_pos s).
  remember (s1 <| allocs := aset keqb (pid, va) n (allocs s1) |>
               <| next_va := aset N.eqb pid (va + psz s * n) (next_va s1) |>
               <| g_bufs := g_bufs s1 ++ [((pid, va), n)] |>) as s2 eqn:Hs2.
  assert (Hps : psz s2 = psz s) by (subst s2; unfold psz; cbn; congruence).
  assert (Hpt2 : pt s2 = pt s1) by (subst s2; reflexivity).
  assert (Hnv2 : forall p, next_va_of s2 p = if p =? pid then va + psz s * n else next_va_of s p).
  { intros p. subst s2. unfold next_va_of. cbn. rewrite (alookup_aset N.eqb Neqb_eq'). rewrite F2.
    destruct (p =? pid); auto. unfold psz. cbn. rewrite F1. auto. }
  assert (Hnv : forall p, next_va_of s p <= next_va_of s2 p).
  { intros p. rewrite Hnv2. destruct (p =? pid) eqn:Ep; [|lia]. apply N.eqb_eq in Ep. subst p. fold va. nia. }
  assert (Hnv' : next_va_of s2 pid = va + psz s * n) by (rewrite Hnv2, N.eqb_refl; auto).
  assert (Hfresh : amem keqb (pid, va) (allocs s) = false).
  { apply (amem_false_iff keqb keqb_eq). intros Hin. apply in_map_iff in Hin. destruct Hin as ([k0 n0] & Hk0 & Hin).
    cbn in Hk0. subst k0. rewrite Forall_forall in A1. destruct (A1 _ Hin) as (B1 & B2 & _).
    unfold buf_hi, buf_pid in *. cbn in *. fold va in B2. nia. }
  assert (Hal2 : allocs s2 = allocs s ++ [((pid, va), n)]).
  { subst s2. cbn. rewrite F3. apply (aset_fresh keqb). auto. }
  unfold allocs_ok, keys_below. rewrite Hps, Hal2, Hpt2.
  splits.
  - apply Forall_app. split.
    + eapply Forall_impl; [|exact A1]. cbn. intros b (B1 & B2 & B3). splits; auto.
      * specialize (Hnv (buf_pid b)). lia.
      * intros i Hi. specialize (B3 i Hi). apply (amem_true_iff keqb keqb_eq) in B3.
        apply (amem_true_iff keqb keqb_eq). rewrite Hk. apply in_app_iff. auto.
    + constructor; [|constructor]. unfold buf_hi, buf_pid, buf_lo. cbn. splits; auto.
      * rewrite Hnv'. lia.
      * intros i Hi. apply (amem_true_iff keqb keqb_eq). rewrite Hk. apply in_app_iff. right.
        apply in_map_iff. exists (N.to_nat i). rewrite N2Nat.id. split; auto. apply in_seq. lia.
  - apply FOP_snoc; auto. eapply Forall_impl; [|exact A1]. cbn. intros b (B1 & B2 & _) Heq. left.
    unfold buf_pid, buf_lo in *. cbn in *. rewrite Heq in B2. exact B2.
  - rewrite Hk. apply Forall_app. split.
    + eapply Forall_impl; [|exact K]. cbn. intros k Hk0. specialize (Hnv (fst k)). lia.
    + apply Forall_forall. intros k Hin. apply in_map_iff in Hin. destruct Hin as (i & <- & Hi). cbn [fst snd].
      rewrite Hnv'. apply in_seq in Hi. assert (N.of_nat i + 1 <= n) by lia. nia.
Qed.

Lemma free_Inv2 pid ptr s s' : Inv2 s -> free pid ptr s = Some s' -> allocs_ok s' /\ keys_below s'.
Proof.
  intros (HI & [A1 A2] & K) H. pose proof HI as (I1 & I2 & _). unfold free in H.
  destruct (alookup keqb (pid, ptr) (allocs s)) as [n|] eqn:En; [|congruence].
  apply free_loop_spec in H; cbn; auto. cbn in H.
  destruct H as (_ & _ & F & _ & _ & _ & A7 & _ & A9).
  assert (E : lps s' = lps s /\ next_va s' = next_va s /\ allocs s' = adel keqb (pid, ptr) (allocs s))
    by (rewrite F; destruct s; cbn; auto).
  destruct E as (E1 & E2 & E3).
  assert (Hp : psz s' = psz s) by (unfold psz; congruence).
  assert (Hnv : forall p, next_va_of s' p = next_va_of s p) by (intros; unfold next_va_of; rewrite E2, Hp; auto).
  assert (Hpos := psz_pos s).
  apply (alookup_In keqb keqb_eq) in En.
  unfold allocs_ok, keys_below. rewrite Hp, E3. splits.
  - apply Forall_forall. intros b Hb. apply (adel_In keqb keqb_eq) in Hb. destruct Hb as [Hb Hne].
    rewrite Forall_forall in A1. destruct (A1 _ Hb) as (B1 & B2 & B3). rewrite Hnv. splits; auto.
    intros i Hi. specialize (B3 i Hi). unfold amem in *. rewrite A7; auto.
    intros j Hj Heq. change (psz (s <| allocs := adel keqb (pid, ptr) (allocs s) |>)) with (psz s) in Heq.
    inversion Heq as [[Hpid Hva]].
    destruct (In_nth_error' _ _ Hb) as (ib & Hib). destruct (In_nth_error' _ _ En) as (ie & Hie).
    assert (Hne2 : ib <> ie).
    { intros Heq2. rewrite Heq2, Hie in Hib. inversion Hib as [Hbe]. apply Hne. rewrite <- Hbe. reflexivity. }
    assert (R : buf_pid b = pid -> buf_hi (psz s) b <= ptr \/ ptr + n * psz s <= buf_lo b).
    { assert (Hsym : forall x y : key * N,
                (buf_pid x = buf_pid y -> buf_hi (psz s) x <= buf_lo y \/ buf_hi (psz s) y <= buf_lo x) ->
                (buf_pid y = buf_pid x -> buf_hi (psz s) y <= buf_lo x \/ buf_hi (psz s) x <= buf_lo y)).
      { intros x0 y0 Hxy Heq'. symmetry in Heq'. apply Hxy in Heq'. tauto. }
      pose proof (FOP_In _ _ A2 Hsym ib ie b ((pid, ptr), n) Hne2 Hib Hie) as R0. exact R0. }
    unfold buf_hi, buf_lo in *. specialize (R Hpid). nia.
  - apply FOP_adel; auto.
  - apply Forall_forall. intros k Hk. apply in_map_iff in Hk. destruct Hk as (e & <- & He).
    apply A9 in He. unfold keys_below in K. rewrite Forall_forall in K. rewrite Hnv. apply K. apply in_map. auto.
Qed.

Theorem step_Inv2 s o : Inv2 s -> crashed s = false -> op_guard s o ->
  crashed (fst (step s o)) = false -> Inv2 (fst (step s o)).
Proof.
  intros H2 Hc Hg Hnc. pose proof H2 as (HI & HA).
  split; [apply step_spec; auto|].
  unfold step in *. rewrite Hc in *.
  assert (Same : forall s', lps s' = lps s -> next_va s' = next_va s -> allocs s' = allocs s ->
            map fst (pt s') = map fst (pt s) -> allocs_ok s' /\ keys_below s')
    by (intros; eapply Inv2_same_keys; eauto).
  destruct o; unfold with_ctx in *; cbn [fst] in *;
    try (destruct (nth_error (ctxs s) (N.to_nat c)) as [x|]; cbn [fst] in *; [|exact HA]).
  - apply Same; reflexivity.
  - apply Same; reflexivity.
  - destruct (length ids =? 0)%nat; [cbn in Hnc; congruence|].
    destruct (negb (all_gpus (devs s) ids)); [cbn in Hnc; congruence|]. apply Same; reflexivity.
  - destruct (length (devs s) <=? N.to_nat d)%nat; [cbn in Hnc; congruence|]. apply Same; reflexivity.
  - unfold allocate in *. destruct (bytes =? 0); [cbn in Hnc; congruence|].
    destruct (alloc_pages _ _ _ _ s) as [[ptr s']|] eqn:E; [|cbn in Hnc; congruence]. cbn [fst] in *.
    destruct (alloc_pages_Inv2 _ _ _ _ _ _ _ H2 (num_pages_pos _ _) E) as [B1 B2].
    eapply (Inv2_same_keys s'); eauto.
  - unfold allocate in *. destruct (bytes =? 0); [cbn in Hnc; congruence|].
    destruct (alloc_pages _ _ _ _ s) as [[ptr s']|] eqn:E; [|cbn in Hnc; congruence]. cbn [fst] in *.
    destruct (alloc_pages_Inv2 _ _ _ _ _ _ _ H2 (num_pages_pos _ _) E) as [B1 B2].
    eapply (Inv2_same_keys s'); eauto.
  - destruct (free (c_pid x) ptr s) as [s'|] eqn:E; [|cbn in Hnc; congruence]. cbn [fst] in *.
    pose proof (free_Inv2 _ _ _ _ H2 E). eapply (Inv2_same_keys s'); eauto.
  - destruct (remap (c_pid x) addr bytes (N.to_nat d) s) as [s'|] eqn:E; [|cbn in Hnc; congruence]. cbn [fst] in *.
    pose proof HI as (I1 & I2 & _). apply remap_grow in E; auto. destruct E as [G Hk].
    destruct (grow_fields _ _ G) as (F1 & F2 & F3 & _). apply Same; auto.
  - destruct (distribute (c_pid x) addr bytes ids s) as [[res s']|] eqn:E; [|cbn in Hnc; congruence]. cbn [fst] in *.
    pose proof (distribute_keys _ _ _ _ _ _ _ HI E) as Hk. apply distribute_grow in E; auto.
    destruct (grow_fields _ _ E) as (F1 & F2 & F3 & _). apply Same; auto.
  - destruct (pt_find s (c_pid x) va) as [old|]; [|cbn in Hnc; congruence].
    destruct (alloc_given (c_pid x) (N.to_nat (gpu + 1)) va true s) as [[pg s']|] eqn:E; [|cbn in Hnc; congruence].
    pose proof HI as (I1 & I2 & _).
    destruct (alloc_given_spec _ _ _ _ _ _ _ I1 I2 E) as (_ & _ & G3 & _ & _ & Hk & Hpid & Hva & Hpt & _).
    assert (F : lps s' = lps s /\ next_va s' = next_va s /\ allocs s' = allocs s)
      by (rewrite G3; destruct s; cbn; auto).
    destruct F as (F1 & F2 & F3).
    destruct (pt_update _ _ (pt s')) as [pt'|] eqn:E2; [|cbn in Hnc; congruence]. cbn [fst] in *.
    apply pt_update_spec in E2. destruct E2 as [Hm ->]. apply Same; auto. cbn.
    destruct (aset_split keqb keqb_eq _ (mkPage (p_pid pg) (p_va pg) (p_pa pg) (gpu + 1) (p_unified pg)) _ Hm)
      as (l1 & old' & l2 & Hl & -> & _).
    rewrite <- Hk, Hl, !map_app. reflexivity.
  - apply Same; reflexivity.
Qed.

(** ** calls that cannot panic *)
Lemma alloc_loop_ok k : forall pid va dv uni s d,
  cst s -> mirror s = pt s -> (psz s | va) ->
  nth_error (devs s) dv = Some d -> is_unified (d_kind d) = false ->
  N.of_nat k <= free_count (psz s) d ->
  (forall i, (i < k)%nat -> amem keqb (pid, va + N.of_nat i * psz s) (pt s) = false) ->
  exists s', alloc_loop k pid va dv uni s = Some s'.
Proof.
  induction k as [|k IH]; intros pid va dv uni s d Hc Hm Ha Hn Hu Hcap Hfresh; [eexists; reflexivity|].
  assert (Hpos := psz_pos s).
  pose proof (core_phys _ Hc) as Hp. pose proof Hp as (_ & _ & _ & W & _).
  assert (Hwf : dev_wf (psz s) d) by (rewrite Forall_forall in W; apply W; eapply nth_error_In; eauto).
  destruct (dev_pop_count _ _ Hpos Hwf ltac:(lia)) as (p & d' & Hpop & Hcnt).
  assert (Hpr : pop_real (psz s) dv (devs s) = Some (p, upd_nth dv d' (devs s)))
    by (unfold pop_real; rewrite Hn, Hpop; auto).
  assert (Hap : alloc_page (psz s) dv (devs s) = Some (p, upd_nth dv d' (devs s)))
    by (unfold alloc_page; rewrite Hn, Hu; auto).
  destruct (pop_real_took _ _ _ _ _ _ _ Hp Hpr) as [Ht Ho].
  pose proof (owned_dev_of_pa _ _ _ _ _ _ (tk_inv _ _ _ _ _ _ Ht) Ho) as Hd.
  assert (Hf0 : amem keqb (pid, va) (pt s) = false).
  { specialize (Hfresh 0%nat ltac:(lia)). replace (va + N.of_nat 0 * psz s) with va in Hfresh by lia. auto. }
  cbn [alloc_loop]. rewrite Hap, Hd. unfold pt_insert. rewrite Hf0.
  set (pg := mkPage pid va p (N.of_nat dv) uni).
  set (s1 := s <| devs := _ |> <| pt := _ |> <| mirror := _ |>).
  assert (E1 : alloc_loop 1 pid va dv uni s = Some s1).
  { cbn [alloc_loop]. rewrite Hap, Hd. unfold pt_insert. rewrite Hf0. reflexivity. }
  pose proof (alloc_loop_grow _ _ _ _ _ _ _ Hc Hm Ha E1) as G.
  destruct (dev_pop_spec _ _ _ _ Hpos Hwf Hpop) as (_ & _ & _ & _ & _ & Hkd & _).
  apply (IH pid (va + psz s) dv uni s1 d').
  - apply (gr_core _ _ G).
  - apply (gr_mirror _ _ G).
  - apply aligned_add; auto.
  - subst s1; cbn. apply nth_upd_nth_same. eapply nth_error_lt; eauto.
  - congruence.
  - change (psz s1) with (psz s). lia.
  - intros i Hi. change (psz s1) with (psz s).
    change (pt s1) with (pt s ++ [((pid, va), pg)]).
    apply (amem_false_iff keqb keqb_eq). rewrite map_app, in_app_iff. cbn. intros [Hin|[Heq|[]]].
    + specialize (Hfresh (S i) ltac:(lia)). apply (amem_false_iff keqb keqb_eq) in Hfresh.
      apply Hfresh. rewrite of_nat_succ_mul. replace (va + (psz s + N.of_nat i * psz s)) with (va + psz s + N.of_nat i * psz s) by lia. auto.
    + inversion Heq. lia.
Qed.

Lemma free_loop_ok k : forall pid va s,
  cst s -> mirror s = pt s ->
  (forall i, (i < k)%nat -> amem keqb (pid, va + N.of_nat i * psz s) (pt s) = true) ->
  exists s', free_loop k pid va s = Some s'.
Proof.
  induction k as [|k IH]; intros pid va s Hc Hm Hpres; [eexists; reflexivity|].
  assert (Hpos := psz_pos s).
  assert (H0 : amem keqb (pid, va) (pt s) = true).
  { specialize (Hpres 0%nat ltac:(lia)). replace (va + N.of_nat 0 * psz s) with va in Hpres by lia. auto. }
  unfold amem in H0. destruct (alookup keqb (pid, va) (pt s)) as [pg|] eqn:El; [|congruence].
  pose proof Hc as (_ & _ & Hf). rewrite Forall_forall in Hf.
  pose proof (alookup_In keqb keqb_eq _ _ _ El) as Hin. destruct (Hf _ Hin) as (E1 & _ & di & _ & E4). cbn in E1, E4.
  assert (Hrm : exists s1, remove_page pid va s = Some s1).
  { unfold remove_page. rewrite Hm, El, E4. unfold pt_remove. rewrite <- E1.
    rewrite (alookup_amem keqb _ _ _ El). eexists; reflexivity. }
  destruct Hrm as (s1 & Hrm). cbn [free_loop]. rewrite Hrm.
  destruct (remove_page_spec _ _ _ _ Hc Hm Hrm) as (pg' & R1 & R2 & R3 & R4 & R5 & _).
  assert (Hp : psz s1 = psz s /\ total s1 = total s /\ g_leaked s1 = g_leaked s) by (rewrite R4; destruct s; cbn; auto).
  destruct Hp as (Hp & Ht & Hlk).
  apply IH.
  - unfold cst. rewrite Hp, Ht, Hlk. auto.
  - auto.
  - intros i Hi. rewrite Hp, R5. specialize (Hpres (S i) ltac:(lia)). unfold amem in *.
    rewrite (alookup_adel_other keqb keqb_eq).
    + rewrite of_nat_succ_mul in Hpres. replace (va + psz s + N.of_nat i * psz s) with (va + (psz s + N.of_nat i * psz s)) by lia. auto.
    + intros Heq. inversion Heq. lia.
Qed.

(** * Conservation: nothing is lost except the pages migration preparation drops *)
Lemma Inv_conservation s i d q : Inv s -> nth_error (devs s) i = Some d -> (psz s | q) ->
  d_base d <= q < d_base d + d_size d ->
  (is_free (psz s) d q \/ In q (pas (pt s)) \/ In q (g_leaked s)) /\
  (is_free (psz s) d q -> ~ In q (pas (pt s)) /\ ~ In q (g_leaked s)) /\
  (In q (pas (pt s)) -> ~ In q (g_leaked s)).
Proof.
  intros ((P & _) & _) Hn Hq Hr. pose proof P as (Hps & _ & _ & W & Hnd & _ & Hcomp).
  rewrite Forall_forall in W. pose proof (W d (nth_error_In _ _ Hn)) as (Hb & Hs & Hl & Hbl & Hlh & Hndt & Hf).
  splits.
  - destruct (N.lt_ge_cases q (d_lo d)) as [Hlt|Hge].
    + destruct (in_dec N.eq_dec q (d_tail d)) as [Hin|Hnin]; [left; right; auto|].
      assert (Ht : taken d q) by (split; [lia|auto]).
      specialize (Hcomp i d q Hn Hq Ht). apply in_app_iff in Hcomp. tauto.
    + left. left. unfold d_hi. split; auto. lia.
  - intros Hfree. assert (Hav : avail (psz s) (devs s) q) by (exists i, d; auto).
    pose proof (avail_not_live _ _ _ _ _ P Hav) as Hnl. rewrite in_app_iff in Hnl. tauto.
  - intros Hin Hlk. apply (NoDup_app_disj _ _ q Hnd); auto.
Qed.

(** only migration preparation drops pages *)
Lemma alloc_loop_leak k : forall pid va dv uni s s', alloc_loop k pid va dv uni s = Some s' -> g_leaked s' = g_leaked s.
Proof.
  induction k as [|k IH]; cbn [alloc_loop]; intros pid va dv uni s s' H; [inversion H; auto|].
  destruct (alloc_page _ _ _) as [[pa l']|]; [|congruence].
  destruct (dev_of_pa l' pa); [|congruence]. destruct (pt_insert _ _ _); [|congruence].
  apply IH in H. exact H.
Qed.

Lemma given_loop_leak : forall X pid va uni s s', given_loop pid va uni X s = Some s' -> g_leaked s' = g_leaked s.
Proof.
  induction X as [|pa X IH]; cbn [given_loop]; intros pid va uni s s' H; [inversion H; auto|].
  destruct (dev_of_pa _ pa); [|congruence]. destruct (pt_update _ _ _); [|congruence].
  destruct (alookup keqb (pid, va) (mirror s)).
  - destruct (dev_of_pa _ _); [|congruence]. apply IH in H. exact H.
  - apply IH in H. exact H.
Qed.

Lemma remap_leak pid va b dv s s' : remap pid va b dv s = Some s' -> g_leaked s' = g_leaked s.
Proof.
  unfold remap. destruct (alloc_multi _ _ _ _) as [[X l']|]; [|congruence]. intros H.
  apply given_loop_leak in H. exact H.
Qed.

Lemma remap_all_leak pid ids : forall calls s s', remap_all pid ids calls s = Some s' -> g_leaked s' = g_leaked s.
Proof.
  induction calls as [|[[a b] i] r IH]; cbn [remap_all]; intros s s' H; [inversion H; auto|].
  destruct (nth_error ids _); [|congruence]. destruct (remap _ _ _ _ s) as [s1|] eqn:E; [|congruence].
  apply IH in H. apply remap_leak in E. congruence.
Qed.

Lemma free_loop_leak k : forall pid va s s', free_loop k pid va s = Some s' -> g_leaked s' = g_leaked s.
Proof.
  induction k as [|k IH]; cbn [free_loop]; intros pid va s s' H; [inversion H; auto|].
  destruct (remove_page pid va s) as [s1|] eqn:E; [|congruence]. apply IH in H. rewrite H.
  unfold remove_page in E. destruct (alookup _ _ _); [|congruence]. destruct (dev_of_pa _ _); [|congruence].
  destruct (pt_remove _ _); [|congruence]. inversion E; subst. reflexivity.
Qed.

Definition is_mig (o : op) : bool := match o with OMig _ _ _ => true | _ => false end.

Lemma step_leak s o : is_mig o = false -> g_leaked (fst (step s o)) = g_leaked s.
Proof.
  intros Hm. unfold step. destruct (crashed s); auto.
  destruct o; try discriminate; unfold with_ctx, crash;
    try (destruct (nth_error (ctxs s) (N.to_nat c)) as [x|]; cbn [fst]; auto).
  - reflexivity.
  - destruct (length ids =? 0)%nat; auto. destruct (negb _); auto.
  - destruct (length (devs s) <=? N.to_nat d)%nat; auto.
  - unfold allocate. destruct (bytes =? 0); auto. unfold alloc_pages.
    destruct (alloc_loop _ _ _ _ _ s) as [s1|] eqn:E; auto. cbn. apply alloc_loop_leak in E. exact E.
  - unfold allocate. destruct (bytes =? 0); auto. unfold alloc_pages.
    destruct (alloc_loop _ _ _ _ _ s) as [s1|] eqn:E; auto. cbn. apply alloc_loop_leak in E. exact E.
  - unfold free. destruct (alookup _ _ (allocs s)); auto.
    destruct (free_loop _ _ _ _) as [s1|] eqn:E; auto. cbn. apply free_loop_leak in E. exact E.
  - destruct (remap _ _ _ _ s) as [s1|] eqn:E; auto. cbn. apply remap_leak in E. exact E.
  - unfold distribute. destruct ids as [|a [|b r]]; auto;
      (destruct (negb _); auto; destruct (_ =? _)%nat; auto; destruct (bytes =? 0); auto;
       destruct (dist_plan _ _ _ _) as [calls res];
       destruct (remap_all _ _ calls s) as [s1|] eqn:E; auto; cbn; apply remap_all_leak in E; exact E).
Qed.

Lemma run_leak ops : forall s, forallb (fun o => negb (is_mig o)) ops = true -> g_leaked (run s ops) = g_leaked s.
Proof.
  induction ops as [|o r IH]; intros s H; auto.
  cbn in H. apply andb_true_iff in H. destruct H as [H1 H2].
  change (run s (o :: r)) with (run (fst (step s o)) r). rewrite IH; auto. apply step_leak.
  destruct (is_mig o); auto; discriminate.
Qed.

(** * Crash freedom: Remap, Distribute, migration preparation, unified devices *)
Lemma dev_empty_count ps d : 0 < ps -> dev_wf ps d -> 1 <= free_count ps d -> dev_empty d = false.
Proof.
  intros Hps Hwf Hc. destruct (free_count_aligned ps d Hps Hwf) as (m & Hm & Hf).
  unfold dev_empty. destruct (d_lo d <? d_hi d) eqn:E; auto. cbn.
  apply N.ltb_ge in E. assert (m = 0) by nia. subst m.
  destruct (d_tail d); auto. cbn in Hf. lia.
Qed.

Lemma pop_n_ok ps n : forall d, 0 < ps -> dev_wf ps d -> N.of_nat n <= free_count ps d ->
  exists pas d', pop_n ps n d = Some (pas, d').
Proof.
  induction n as [|n IH]; intros d Hps Hwf Hc; [eexists _, _; reflexivity|].
  destruct (dev_pop_count ps d Hps Hwf ltac:(lia)) as (p & d' & Hp & Hcnt).
  destruct (dev_pop_spec _ _ _ _ Hps Hwf Hp) as (Hwf' & _).
  destruct (IH d' Hps Hwf' ltac:(lia)) as (pas & d'' & Hn).
  cbn. rewrite Hp, Hn. eexists _, _; reflexivity.
Qed.

Lemma multi_real_ok ps n i l d : 0 < ps -> nth_error l i = Some d -> dev_wf ps d ->
  1 <= free_count ps d -> N.of_nat n <= free_count ps d ->
  exists pas l', multi_real ps n i l = Some (pas, l').
Proof.
  intros Hps Hn Hwf H1 Hc. unfold multi_real. rewrite Hn, (dev_empty_count ps d Hps Hwf H1).
  destruct (pop_n_ok ps n d Hps Hwf Hc) as (pas & d' & ->). eexists _, _; reflexivity.
Qed.

Lemma cst_wf s i d : cst s -> nth_error (devs s) i = Some d -> dev_wf (psz s) d.
Proof.
  intros ((_ & _ & _ & W & _) & _) Hn. rewrite Forall_forall in W. apply W. eapply nth_error_In; eauto.
Qed.

Lemma amem_keys {V W} k (a : list (key * V)) (b : list (key * W)) :
  map fst a = map fst b -> amem keqb k a = amem keqb k b.
Proof.
  intros H. destruct (amem keqb k b) eqn:E.
  - apply (amem_true_iff keqb keqb_eq). rewrite H. apply (amem_true_iff keqb keqb_eq). auto.
  - apply (amem_false_iff keqb keqb_eq). rewrite H. apply (amem_false_iff keqb keqb_eq). auto.
Qed.

Lemma given_loop_ok : forall X pid va uni s,
  coreX (psz s) (devs s) (total s) (X ++ g_leaked s) (pt s) -> mirror s = pt s ->
  (forall i, (i < length X)%nat -> amem keqb (pid, va + N.of_nat i * psz s) (pt s) = true) ->
  exists s', given_loop pid va uni X s = Some s'.
Proof.
  induction X as [|pa X IH]; intros pid va uni s Hc Hm Hpres; [eexists; reflexivity|].
  assert (Hpos := psz_pos s).
  pose proof Hc as (P & K & F). pose proof P as (_ & _ & _ & _ & _ & L & _).
  destruct (L pa (or_introl eq_refl)) as (_ & di & Ho).
  pose proof (owned_dev_of_pa _ _ _ _ _ _ P Ho) as Hd.
  assert (H0 : amem keqb (pid, va) (pt s) = true).
  { specialize (Hpres 0%nat ltac:(cbn; lia)). replace (va + N.of_nat 0 * psz s) with va in Hpres by lia. auto. }
  cbn [given_loop]. rewrite Hd. unfold pt_update. rewrite H0. rewrite Hm.
  unfold amem in H0. destruct (alookup keqb (pid, va) (pt s)) as [old|] eqn:El; [|congruence].
  rewrite Forall_forall in F. destruct (F _ (alookup_In keqb keqb_eq _ _ _ El)) as (_ & _ & dj & _ & E4). cbn in E4.
  rewrite E4.
  set (pg := mkPage pid va pa (N.of_nat di) uni).
  cbn [app] in Hc.
  destruct (core_update _ _ _ (X ++ g_leaked s) (pt s) (pid, va) pg old di Hc El eq_refl eq_refl Hd) as (Hc1 & _ & Hk).
  destruct (coreX_release _ _ _ _ _ _ _ Hc1 E4) as (Hc2 & _).
  apply IH; cbn; auto.
  intros i Hi. rewrite (amem_keys _ _ (pt s) Hk).
  specialize (Hpres (S i) ltac:(cbn; lia)). rewrite of_nat_succ_mul in Hpres.
  match goal with |- context [N.of_nat i * ?z] => change z with (psz s) end.
  replace (va + psz s + N.of_nat i * psz s) with (va + (psz s + N.of_nat i * psz s)) by lia. auto.
Qed.

(** a block of n pages can be taken from device dv with one allocateMultiplePages call *)
Definition block_ok (s : st) (dv : nat) (n : N) : Prop :=
  exists d, nth_error (devs s) dv = Some d /\
    if is_unified (d_kind d)
    then exists m e, nth_error (d_members d) (d_next d) = Some m /\ nth_error (devs s) m = Some e /\
                     1 <= free_count (psz s) e /\ n <= free_count (psz s) e
    else 1 <= free_count (psz s) d /\ n <= free_count (psz s) d.

Definition range_mapped (s : st) (pid va n : N) : Prop :=
  forall i, i < n -> amem keqb (pid, va + i * psz s) (pt s) = true.

Lemma remap_ok pid va bytes dv s : cst s -> mirror s = pt s ->
  block_ok s dv (remap_count (psz s) bytes) -> range_mapped s pid va (remap_count (psz s) bytes) ->
  exists s', remap pid va bytes dv s = Some s'.
Proof.
  intros Hc Hm (d & Hn & Hb) Hr. assert (Hpos := psz_pos s). unfold remap.
  set (n := remap_count (psz s) bytes) in *.
  assert (Ham : exists X l', alloc_multi (psz s) (N.to_nat n) dv (devs s) = Some (X, l')).
  { unfold alloc_multi. rewrite Hn. destruct (is_unified (d_kind d)).
    - destruct Hb as (m & e & Hm1 & Hm2 & H1 & H2). rewrite Hm1.
      destruct (multi_real_ok (psz s) (N.to_nat n) m (devs s) e Hpos Hm2 (cst_wf _ _ _ Hc Hm2) H1) as (X & l' & ->);
        [rewrite N2Nat.id; auto|]. eexists _, _; reflexivity.
    - destruct Hb as [H1 H2].
      apply (multi_real_ok (psz s) (N.to_nat n) dv (devs s) d Hpos Hn (cst_wf _ _ _ Hc Hn) H1).
      rewrite N2Nat.id; auto. }
  destruct Ham as (X & l' & Ham). rewrite Ham.
  destruct (alloc_multi_took _ _ _ _ _ _ _ _ (core_phys _ Hc) Ham) as [Ht Hlen].
  pose proof (coreX_took _ _ _ _ _ _ _ Hc Ht) as Hc1. apply coreX_rev in Hc1.
  apply given_loop_ok; cbn; auto.
  intros i Hi. change (psz (s <| devs := l' |>)) with (psz s). apply Hr. lia.
Qed.

(** how the number of free pages of the devices changes *)
Lemma dev_pop_count_eq ps d p d' : 0 < ps -> dev_wf ps d -> dev_pop ps d = Some (p, d') ->
  free_count ps d = free_count ps d' + 1.
Proof.
  intros Hps Hwf Hp.
  assert (H1 : 1 <= free_count ps d).
  { destruct (free_count_aligned ps d Hps Hwf) as (m & Hm & Hf). unfold dev_pop in Hp.
    destruct (d_lo d <? d_hi d) eqn:E.
    - apply N.ltb_lt in E. assert (1 <= m) by nia. lia.
    - destruct (d_tail d); [congruence|]. cbn [length] in Hf. lia. }
  destruct (dev_pop_count ps d Hps Hwf H1) as (p2 & d2 & Hp2 & Hc). congruence.
Qed.

Lemma pop_n_count ps n : forall d pas d', 0 < ps -> dev_wf ps d -> pop_n ps n d = Some (pas, d') ->
  free_count ps d = free_count ps d' + N.of_nat n /\ d_kind d' = d_kind d.
Proof.
  induction n as [|n IH]; cbn; intros d pas d' Hps Hwf H.
  - inversion H; subst. split; auto. lia.
  - destruct (dev_pop ps d) as [[p d1]|] eqn:E; [|congruence].
    destruct (pop_n ps n d1) as [[r d2]|] eqn:E2; [|congruence]. inversion H; subst.
    destruct (dev_pop_spec _ _ _ _ Hps Hwf E) as (Hwf1 & _ & _ & _ & _ & Hk & _).
    pose proof (dev_pop_count_eq _ _ _ _ Hps Hwf E). destruct (IH _ _ _ Hps Hwf1 E2) as [Hc Hk2].
    split; [lia|congruence].
Qed.

(** free pages and kind of the device with ID j *)
Definition fcount (ps : N) (l : list dev) (j : nat) : option (N * bool) :=
  match nth_error l j with Some e => Some (free_count ps e, is_unified (d_kind e)) | None => None end.

Definition not_less (ps : N) (l l' : list dev) (n : N) : Prop :=
  forall j c k, fcount ps l j = Some (c, k) -> exists c', fcount ps l' j = Some (c', k) /\ c <= c' + n.

Lemma not_less_refl ps l : not_less ps l l 0.
Proof. intros j c k H. exists c. split; auto. lia. Qed.

Lemma not_less_trans ps l1 l2 l3 a b : not_less ps l1 l2 a -> not_less ps l2 l3 b -> not_less ps l1 l3 (a + b).
Proof.
  intros H1 H2 j c k H. destruct (H1 _ _ _ H) as (c' & H' & Hc). destruct (H2 _ _ _ H') as (c'' & H'' & Hc').
  exists c''. split; auto. lia.
Qed.

Lemma not_less_upd ps l i d d' n : nth_error l i = Some d -> d_kind d' = d_kind d ->
  free_count ps d <= free_count ps d' + n -> not_less ps l (upd_nth i d' l) n.
Proof.
  intros Hn Hk Hc j c k H. unfold fcount in *. destruct (Nat.eq_dec i j) as [->|Hne].
  - rewrite Hn in H. inversion H; subst. rewrite nth_upd_nth_same by (eapply nth_error_lt; eauto).
    eexists. split; [rewrite Hk; reflexivity|]. auto.
  - rewrite nth_upd_nth_other by auto. destruct (nth_error l j); [|congruence]. inversion H; subst.
    eexists. split; [reflexivity|]. lia.
Qed.

Lemma not_less_bump ps l i : not_less ps l (bump i l) 0.
Proof.
  unfold bump. destruct (nth_error l i) as [d|] eqn:Hn; [|apply not_less_refl].
  eapply not_less_upd; eauto. unfold free_count, d_hi. cbn. lia.
Qed.

Lemma not_less_push ps l i p : not_less ps l (push_to i p l) 0.
Proof.
  unfold push_to. destruct (nth_error l i) as [d|] eqn:Hn; [|apply not_less_refl].
  eapply not_less_upd; eauto. unfold free_count, dev_push, d_hi. cbn. rewrite app_length. cbn. lia.
Qed.

Lemma not_less_weaken ps l l' a b : not_less ps l l' a -> a <= b -> not_less ps l l' b.
Proof. intros H Hab j c k Hj. destruct (H _ _ _ Hj) as (c' & H1 & H2). exists c'. split; auto. lia. Qed.

Lemma multi_real_not_less ps n i l pas l' : 0 < ps -> Forall (dev_wf ps) l ->
  multi_real ps n i l = Some (pas, l') -> not_less ps l l' (N.of_nat n).
Proof.
  intros Hps W H. unfold multi_real in H. destruct (nth_error l i) as [d|] eqn:Hn; [|congruence].
  destruct (dev_empty d); [congruence|]. destruct (pop_n ps n d) as [[r d']|] eqn:E; [|congruence].
  inversion H; subst. rewrite Forall_forall in W.
  destruct (pop_n_count _ _ _ _ _ Hps (W d (nth_error_In _ _ Hn)) E) as [Hc Hk].
  eapply not_less_upd; eauto. lia.
Qed.

Lemma alloc_multi_not_less ps n i l pas l' : 0 < ps -> Forall (dev_wf ps) l ->
  alloc_multi ps n i l = Some (pas, l') -> not_less ps l l' (N.of_nat n).
Proof.
  intros Hps W H. unfold alloc_multi in H. destruct (nth_error l i) as [d|]; [|congruence].
  destruct (is_unified (d_kind d)).
  - destruct (nth_error (d_members d) (d_next d)) as [m|]; [|congruence].
    destruct (multi_real ps n m l) as [[r l0]|] eqn:E; [|congruence]. inversion H; subst.
    replace (N.of_nat n) with (N.of_nat n + 0) by lia.
    eapply not_less_trans; [eapply multi_real_not_less; eauto|apply not_less_bump].
  - eapply multi_real_not_less; eauto.
Qed.

Lemma given_loop_not_less : forall X pid va uni s s', given_loop pid va uni X s = Some s' ->
  not_less (psz s) (devs s) (devs s') 0.
Proof.
  induction X as [|pa X IH]; cbn [given_loop]; intros pid va uni s s' H; [inversion H; apply not_less_refl|].
  destruct (dev_of_pa _ pa); [|congruence]. destruct (pt_update _ _ _); [|congruence].
  destruct (alookup keqb (pid, va) (mirror s)).
  - destruct (dev_of_pa _ _) as [dj|]; [|congruence]. apply IH in H. cbn in H.
    replace 0 with (0 + 0) by lia. eapply not_less_trans; [apply not_less_push|exact H].
  - apply IH in H. exact H.
Qed.

Lemma remap_not_less pid va bytes dv s s' : cst s -> remap pid va bytes dv s = Some s' ->
  not_less (psz s) (devs s) (devs s') (remap_count (psz s) bytes).
Proof.
  intros Hc H. unfold remap in H. destruct (alloc_multi _ _ _ _) as [[X l']|] eqn:E; [|congruence].
  pose proof Hc as ((_ & _ & _ & W & _) & _).
  apply alloc_multi_not_less in E; auto; [|apply psz_pos]. rewrite N2Nat.id in E.
  apply given_loop_not_less in H. cbn in H.
  replace (remap_count (psz s) bytes) with (remap_count (psz s) bytes + 0) by lia.
  eapply not_less_trans; eauto.
Qed.

(** ** the Remap calls Distribute issues *)
Definition call_ok (ps addr np nG : N) (c : N * N * N) : Prop :=
  exists off k, fst (fst c) = addr + off * ps /\ snd (fst c) = k * ps /\ 1 <= k /\ off + k <= np /\ snd c < nG.

Definition calls_pages (ps : N) (calls : list (N * N * N)) : N :=
  fold_right (fun c acc => remap_count ps (snd (fst c)) + acc) 0 calls.

Lemma remap_count_mul ps k : 0 < ps -> remap_count ps (k * ps) = k.
Proof.
  intros Hps. unfold remap_count. destruct (k * ps =? 0) eqn:E.
  - apply N.eqb_eq in E. nia.
  - apply N.eqb_neq in E. assert (1 <= k) by nia.
    replace (k * ps - 1) with ((k - 1) * ps + (ps - 1)) by nia.
    rewrite N.div_add_l by lia. rewrite N.div_small by lia. lia.
Qed.

Lemma upto_In n i : In i (upto n) <-> i < n.
Proof.
  unfold upto. rewrite in_map_iff. split.
  - intros (j & <- & Hj). apply in_seq in Hj. lia.
  - intros H. exists (N.to_nat i). rewrite N2Nat.id. split; auto. apply in_seq. lia.
Qed.

Lemma upto_length n : N.of_nat (length (upto n)) = n.
Proof. unfold upto. rewrite map_length, seq_length. apply N2Nat.id. Qed.

Lemma calls_pages_app ps a b : calls_pages ps (a ++ b) = calls_pages ps a + calls_pages ps b.
Proof. induction a; cbn; auto. fold (calls_pages ps (a0 ++ b)). fold (calls_pages ps a0). lia. Qed.

Lemma calls_pages_const ps k (f g : N -> N) l : 0 < ps ->
  calls_pages ps (map (fun i => (f i, k * ps, g i)) l) = N.of_nat (length l) * k.
Proof.
  intros Hps. induction l as [|a l IH]; cbn [map length calls_pages fold_right]; [lia|].
  fold (calls_pages ps (map (fun i => (f i, k * ps, g i)) l)). rewrite IH. cbn [fst snd].
  rewrite remap_count_mul by auto. lia.
Qed.

Lemma calls_pages_unit ps (f g : N -> N) l : 0 < ps ->
  calls_pages ps (map (fun i => (f i, ps, g i)) l) = N.of_nat (length l).
Proof.
  intros Hps. induction l as [|a l IH]; cbn [map length calls_pages fold_right]; [lia|].
  fold (calls_pages ps (map (fun i => (f i, ps, g i)) l)). rewrite IH. cbn [fst snd].
  replace ps with (1 * ps) at 2 by lia. rewrite remap_count_mul by auto. lia.
Qed.

Lemma dist_plan_spec ps addr bytes nG : 0 < ps -> 0 < nG ->
  let np := num_pages ps bytes in
  Forall (call_ok ps addr np nG) (fst (dist_plan ps addr bytes nG)) /\
  calls_pages ps (fst (dist_plan ps addr bytes nG)) <= np.
Proof.
  intros Hps HnG np. unfold dist_plan. fold np.
  set (per := np / nG). set (use0 := if 0 <? per then np / per else 0).
  set (use := if nG <? use0 then nG else use0). set (rem := np mod nG).
  set (last := if use =? 0 then 0 else use - 1). cbn [fst].
  assert (Hdm : np = nG * per + rem) by (apply N.div_mod; lia).
  assert (Hrem : rem < nG) by (apply N.mod_lt; lia).
  assert (Huse : use <= nG) by (subst use; destruct (nG <? use0) eqn:E; [lia|apply N.ltb_ge in E; lia]).
  assert (Hper : 0 < use -> 1 <= per).
  { subst use use0. destruct (0 <? per) eqn:E; [apply N.ltb_lt in E; lia|].
    destruct (nG <? 0) eqn:E2; [apply N.ltb_lt in E2; lia|lia]. }
  assert (Hlast : last < nG) by (subst last; destruct (use =? 0) eqn:E; [lia|apply N.eqb_neq in E; lia]).
  split.
  - apply Forall_app. split; apply Forall_forall; intros c Hc; apply in_map_iff in Hc; destruct Hc as (i & <- & Hi);
      apply upto_In in Hi; unfold call_ok; cbn [fst snd].
    + exists (i * per), per. splits; auto; try lia; try nia.
    + exists (per * use + i), 1. splits; auto; try lia; try nia.
  - rewrite calls_pages_app.
    rewrite (calls_pages_const ps per (fun i => addr + i * per * ps) (fun i => i)) by auto.
    rewrite (calls_pages_unit ps (fun i => addr + (per * use + i) * ps) (fun _ => last)) by auto.
    rewrite !upto_length. nia.
Qed.

Definition dist_target (s : st) (need : N) (dv : N) : Prop :=
  exists d, nth_error (devs s) (N.to_nat dv) = Some d /\ is_unified (d_kind d) = false /\
            need <= free_count (psz s) d.

Lemma range_mapped_keys s s' pid va n : psz s' = psz s -> map fst (pt s') = map fst (pt s) ->
  range_mapped s pid va n -> range_mapped s' pid va n.
Proof. intros Hp Hk H i Hi. rewrite Hp. rewrite (amem_keys _ _ (pt s) Hk). auto. Qed.

Lemma remap_all_ok pid ids addr np : forall calls s,
  cst s -> mirror s = pt s ->
  Forall (call_ok (psz s) addr np (N.of_nat (length ids))) calls ->
  Forall (dist_target s (calls_pages (psz s) calls)) ids ->
  range_mapped s pid addr np ->
  exists s', remap_all pid ids calls s = Some s'.
Proof.
  induction calls as [|[[a b] i] r IH]; intros s Hc Hm Hcalls Htg Hr; [eexists; reflexivity|].
  assert (Hpos := psz_pos s).
  inversion Hcalls as [|? ? Hc0 Hrest]; subst. destruct Hc0 as (off & k & Ha & Hb & Hk1 & Hok & Hi).
  cbn [fst snd] in *. subst a b.
  cbn [remap_all].
  destruct (nth_error ids (N.to_nat i)) as [dv|] eqn:En; [|apply nth_error_None in En; lia].
  rewrite Forall_forall in Htg. destruct (Htg dv (nth_error_In _ _ En)) as (d & Hd & Hu & Hcap).
  cbn [calls_pages fold_right fst snd] in Hcap. fold (calls_pages (psz s) r) in Hcap.
  rewrite remap_count_mul in Hcap by auto.
  destruct (remap_ok pid (addr + off * psz s) (k * psz s) (N.to_nat dv) s Hc Hm) as (s1 & Hs1).
  - exists d. rewrite Hd, Hu, remap_count_mul by auto. split; auto. lia.
  - rewrite remap_count_mul by auto. intros j Hj.
    replace (addr + off * psz s + j * psz s) with (addr + (off + j) * psz s) by lia. apply Hr. lia.
  - rewrite Hs1.
    destruct (remap_grow _ _ _ _ _ _ Hc Hm Hs1) as [G Hkeys].
    destruct (frame3_fields _ _ (gr_frame _ _ G)) as (Hp & Ht & Hl).
    pose proof (remap_not_less _ _ _ _ _ _ Hc Hs1) as Hnl. rewrite remap_count_mul in Hnl by auto.
    apply IH.
    + apply (grow_cst _ _ G).
    + apply (gr_mirror _ _ G).
    + rewrite Hp. auto.
    + rewrite Hp. apply Forall_forall. intros dv' Hin. destruct (Htg dv' Hin) as (d' & Hd' & Hu' & Hcap').
      cbn [calls_pages fold_right fst snd] in Hcap'. fold (calls_pages (psz s) r) in Hcap'.
      rewrite remap_count_mul in Hcap' by auto.
      destruct (Hnl (N.to_nat dv') (free_count (psz s) d') false) as (c' & Hc' & Hle).
      { unfold fcount. rewrite Hd', Hu'. auto. }
      unfold fcount in Hc'. destruct (nth_error (devs s1) (N.to_nat dv')) as [e|] eqn:Ee; [|congruence].
      inversion Hc' as [[Hc1 Hc2]]. exists e. rewrite Hp. splits; auto. lia.
    + eapply range_mapped_keys; eauto.
Qed.

Lemma dist_target_mono s a b dv : dist_target s b dv -> a <= b -> dist_target s a dv.
Proof. intros (d & H1 & H2 & H3) Hab. exists d. splits; auto. lia. Qed.

Definition dist_ok (s : st) (pid addr bytes : N) (ids : list N) : Prop :=
  match ids with
  | [_] => True
  | _ => addr mod psz s = 0 /\ 0 < bytes /\ (0 < length ids)%nat /\
         range_mapped s pid addr (num_pages (psz s) bytes) /\
         Forall (dist_target s (num_pages (psz s) bytes)) ids
  end.

Lemma distribute_ok pid addr bytes ids s : Inv s -> dist_ok s pid addr bytes ids ->
  exists r, distribute pid addr bytes ids s = Some r.
Proof.
  intros (I1 & I2 & _) Hok. assert (Hpos := psz_pos s). unfold distribute.
  assert (Hgen : addr mod psz s = 0 /\ 0 < bytes /\ (0 < length ids)%nat /\
         range_mapped s pid addr (num_pages (psz s) bytes) /\
         Forall (dist_target s (num_pages (psz s) bytes)) ids ->
         exists r, (if negb (addr mod psz s =? 0) then None
           else if (length ids =? 0)%nat then None
           else if bytes =? 0 then None
           else let '(calls, res) := dist_plan (psz s) addr bytes (N.of_nat (length ids)) in
                match remap_all pid ids calls s with
                | None => None
                | Some s' => Some (res, s')
                end) = Some r).
  { intros (H1 & H2 & H3 & H4 & H5). rewrite H1. cbn [negb N.eqb].
    replace (length ids =? 0)%nat with false by (symmetry; apply Nat.eqb_neq; lia).
    replace (bytes =? 0) with false by (symmetry; apply N.eqb_neq; lia).
    destruct (dist_plan_spec (psz s) addr bytes (N.of_nat (length ids)) Hpos ltac:(lia)) as [Hc Hsum].
    destruct (dist_plan (psz s) addr bytes (N.of_nat (length ids))) as [calls res]. cbn [fst] in *.
    destruct (remap_all_ok pid ids addr (num_pages (psz s) bytes) calls s I1 I2 Hc) as (s' & ->); auto.
    - eapply Forall_impl; [|exact H5]. intros dv Hd. eapply dist_target_mono; eauto.
    - eexists; reflexivity. }
  unfold dist_ok in Hok. destruct ids as [|a [|b r]]; auto. eexists; reflexivity.
Qed.

(** ** migration preparation *)
Lemma alloc_given_ok pid dv va uni s d : cst s -> mirror s = pt s ->
  nth_error (devs s) dv = Some d -> is_unified (d_kind d) = false -> 1 <= free_count (psz s) d ->
  amem keqb (pid, va) (pt s) = true ->
  exists r, alloc_given pid dv va uni s = Some r.
Proof.
  intros Hc Hm Hn Hu Hcap Hk. assert (Hpos := psz_pos s).
  destruct (dev_pop_count _ _ Hpos (cst_wf _ _ _ Hc Hn) Hcap) as (p & d' & Hpop & _).
  assert (Hpr : pop_real (psz s) dv (devs s) = Some (p, upd_nth dv d' (devs s)))
    by (unfold pop_real; rewrite Hn, Hpop; auto).
  destruct (pop_real_took _ _ _ _ _ _ _ (core_phys _ Hc) Hpr) as [Ht Ho].
  pose proof (owned_dev_of_pa _ _ _ _ _ _ (tk_inv _ _ _ _ _ _ Ht) Ho) as Hd.
  unfold alloc_given, alloc_page. rewrite Hn, Hu, Hpr, Hd. unfold pt_update. rewrite Hk. eexists; reflexivity.
Qed.

Lemma aligned_div_mul ps a : 0 < ps -> (ps | a) -> a / ps * ps = a.
Proof. intros Hps [k ->]. rewrite N.div_mul by lia. auto. Qed.

(** ** unified devices: page-by-page allocation *)
Lemma rot_hits len next j : (j < len)%nat -> exists i, (i < len)%nat /\ Nat.modulo (next + i) len = j.
Proof.
  intros Hj. assert (Hl : len <> 0%nat) by lia.
  set (r := Nat.modulo next len). assert (Hr : (r < len)%nat) by (apply Nat.mod_upper_bound; auto).
  exists (Nat.modulo (j + len - r) len). split; [apply Nat.mod_upper_bound; auto|].
  rewrite Nat.add_mod by auto. fold r. rewrite Nat.mod_mod by auto.
  rewrite <- (Nat.mod_small r len) at 1 by auto. rewrite <- Nat.add_mod by auto.
  replace (r + (j + len - r))%nat with (j + 1 * len)%nat by lia.
  rewrite Nat.mod_add by auto. apply Nat.mod_small. auto.
Qed.

Definition nonempty_at (l : list dev) (m : nat) : Prop :=
  exists e, nth_error l m = Some e /\ dev_empty e = false.

Lemma select_member_some l u : (exists j m, nth_error (d_members u) j = Some m /\ nonempty_at l m) ->
  exists m', select_member l u = Some m' /\ nonempty_at l m'.
Proof.
  intros (j & m & Hj & Hne). unfold select_member.
  set (len := length (d_members u)).
  set (F := fun acc i => match nth_error (d_members u) (Nat.modulo (d_next u + i) len) with
                         | None => acc
                         | Some m0 => match nth_error l m0 with
                                      | None => acc
                                      | Some d => if dev_empty d then acc else Some m0
                                      end
                         end).
  assert (Hlen : (j < len)%nat) by (eapply nth_error_lt; eauto).
  destruct (rot_hits len (d_next u) j Hlen) as (i0 & Hi0 & Hrot).
  assert (Hgen : forall is acc,
            ((exists m', acc = Some m' /\ nonempty_at l m') \/ In i0 is) ->
            exists m', fold_left F is acc = Some m' /\ nonempty_at l m').
  { induction is as [|a r IH]; cbn [fold_left]; intros acc [Hg|Hin]; auto; [destruct Hin| |].
    - apply IH. left. unfold F. destruct (nth_error (d_members u) (Nat.modulo (d_next u + a) len)) as [m0|]; auto.
      destruct (nth_error l m0) as [d|] eqn:Ed; auto. destruct (dev_empty d) eqn:Ee; auto.
      exists m0. split; [reflexivity|]. exists d. split; assumption.
    - destruct Hin as [->|Hin]; [|apply IH; auto].
      apply IH. left. unfold F. rewrite Hrot, Hj. destruct Hne as (e & He & Hee). rewrite He, Hee.
      exists m. split; [reflexivity|]. exists e. split; assumption. }
  apply Hgen. right. apply in_seq. lia.
Qed.

Lemma nonempty_count ps d : 0 < ps -> dev_wf ps d -> dev_empty d = false -> 1 <= free_count ps d.
Proof.
  intros Hps Hwf He. destruct (free_count_aligned ps d Hps Hwf) as (m & Hm & Hf).
  unfold dev_empty in He. destruct (d_lo d <? d_hi d) eqn:E.
  - apply N.ltb_lt in E. assert (1 <= m) by nia. lia.
  - cbn in He. destruct (d_tail d); [discriminate|]. cbn [length] in Hf. lia.
Qed.

Definition rich (ps : N) (l : list dev) (mem : list nat) (n : N) : Prop :=
  exists j m c kd, nth_error mem j = Some m /\ fcount ps l m = Some (c, kd) /\ n <= c.

Lemma pop_real_not_less ps i l p l' : 0 < ps -> Forall (dev_wf ps) l ->
  pop_real ps i l = Some (p, l') -> not_less ps l l' 1.
Proof.
  intros Hps W H. unfold pop_real in H. destruct (nth_error l i) as [d|] eqn:Hn; [|congruence].
  destruct (dev_pop ps d) as [[p0 d']|] eqn:E; [|congruence]. inversion H; subst.
  rewrite Forall_forall in W. pose proof (W d (nth_error_In _ _ Hn)) as Hwf.
  destruct (dev_pop_spec _ _ _ _ Hps Hwf E) as (_ & _ & _ & _ & _ & Hk & _).
  pose proof (dev_pop_count_eq _ _ _ _ Hps Hwf E). eapply not_less_upd; eauto. lia.
Qed.

Lemma alloc_page_unified_ok ps i l u k : 0 < ps -> Forall (dev_wf ps) l ->
  nth_error l i = Some u -> is_unified (d_kind u) = true -> rich ps l (d_members u) (N.of_nat (S k)) ->
  exists p l' u', alloc_page ps i l = Some (p, l') /\ rich ps l' (d_members u) (N.of_nat k) /\
    nth_error l' i = Some u' /\ d_members u' = d_members u /\ d_kind u' = d_kind u.
Proof.
  intros Hps W Hn Hu (j & m & c & kd & Hj & Hc & Hle). rewrite Forall_forall in W.
  assert (Hne : nonempty_at l m).
  { unfold fcount in Hc. destruct (nth_error l m) as [e|] eqn:He; [|congruence]. inversion Hc; subst.
    exists e. split; auto. apply (dev_empty_count ps); auto; [apply W; eapply nth_error_In; eauto|lia]. }
  destruct (select_member_some l u (ex_intro _ j (ex_intro _ m (conj Hj Hne)))) as (m' & Hsel & (e' & He' & Hee')).
  pose proof (W e' (nth_error_In _ _ He')) as Hwf'.
  destruct (dev_pop_count ps e' Hps Hwf' (nonempty_count ps e' Hps Hwf' Hee')) as (p & d' & Hpop & _).
  assert (Hpr : pop_real ps m' l = Some (p, upd_nth m' d' l)) by (unfold pop_real; rewrite He', Hpop; auto).
  unfold alloc_page. rewrite Hn, Hu, Hsel, Hpr.
  destruct (dev_pop_spec _ _ _ _ Hps Hwf' Hpop) as (_ & _ & _ & _ & _ & Hkd & Hmb & _).
  assert (Hnl : not_less ps l (bump i (upd_nth m' d' l)) 1).
  { replace 1 with (1 + 0) by lia. eapply not_less_trans; [eapply pop_real_not_less; eauto|apply not_less_bump].
    apply Forall_forall. auto. }
  assert (Hu1 : exists u1, nth_error (upd_nth m' d' l) i = Some u1 /\ d_members u1 = d_members u /\ d_kind u1 = d_kind u).
  { destruct (Nat.eq_dec m' i) as [->|Hne'].
    - rewrite Hn in He'. inversion He'; subst. exists d'. rewrite nth_upd_nth_same by (eapply nth_error_lt; eauto). auto.
    - exists u. rewrite nth_upd_nth_other by auto. auto. }
  destruct Hu1 as (u1 & Hu1 & Hm1 & Hk1).
  eexists p, _, _. split; [reflexivity|]. splits.
  - destruct (Hnl m c kd Hc) as (c' & Hc' & Hle'). exists j, m, c', kd. splits; auto. lia.
  - unfold bump. rewrite Hu1. apply nth_upd_nth_same. rewrite upd_nth_length. eapply nth_error_lt; eauto.
  - cbn. auto.
  - cbn. auto.
Qed.

Lemma alloc_loop_ok_unified k : forall pid va dv uni s u,
  cst s -> mirror s = pt s -> (psz s | va) ->
  nth_error (devs s) dv = Some u -> is_unified (d_kind u) = true ->
  rich (psz s) (devs s) (d_members u) (N.of_nat k) ->
  (forall i, (i < k)%nat -> amem keqb (pid, va + N.of_nat i * psz s) (pt s) = false) ->
  exists s', alloc_loop k pid va dv uni s = Some s'.
Proof.
  induction k as [|k IH]; intros pid va dv uni s u Hc Hm Ha Hn Hu Hrich Hfresh; [eexists; reflexivity|].
  assert (Hpos := psz_pos s). pose proof Hc as ((_ & _ & _ & W & _) & _).
  destruct (alloc_page_unified_ok _ _ _ _ _ Hpos W Hn Hu Hrich) as (p & l' & u' & Hap & Hrich' & Hn' & Hm' & Hk').
  destruct (alloc_page_took _ _ _ _ _ _ _ (core_phys _ Hc) Hap) as [Ht (m & Ho)].
  pose proof (owned_dev_of_pa _ _ _ _ _ _ (tk_inv _ _ _ _ _ _ Ht) Ho) as Hd.
  assert (Hf0 : amem keqb (pid, va) (pt s) = false).
  { specialize (Hfresh 0%nat ltac:(lia)). replace (va + N.of_nat 0 * psz s) with va in Hfresh by lia. auto. }
  cbn [alloc_loop]. rewrite Hap, Hd. unfold pt_insert. rewrite Hf0.
  set (pg := mkPage pid va p (N.of_nat m) uni).
  set (s1 := s <| devs := _ |> <| pt := _ |> <| mirror := _ |>).
  assert (E1 : alloc_loop 1 pid va dv uni s = Some s1).
  { cbn [alloc_loop]. rewrite Hap, Hd. unfold pt_insert. rewrite Hf0. reflexivity. }
  pose proof (alloc_loop_grow _ _ _ _ _ _ _ Hc Hm Ha E1) as G.
  apply (IH pid (va + psz s) dv uni s1 u').
  - apply (grow_cst _ _ G).
  - apply (gr_mirror _ _ G).
  - apply aligned_add; auto.
  - exact Hn'.
  - rewrite Hk'. auto.
  - change (psz s1) with (psz s). change (devs s1) with l'. rewrite Hm'. exact Hrich'.
  - intros i Hi. change (psz s1) with (psz s).
    change (pt s1) with (pt s ++ [((pid, va), pg)]).
    apply (amem_false_iff keqb keqb_eq). rewrite map_app, in_app_iff. cbn. intros [Hin|[Heq|[]]].
    + specialize (Hfresh (S i) ltac:(lia)). apply (amem_false_iff keqb keqb_eq) in Hfresh.
      apply Hfresh. rewrite of_nat_succ_mul. replace (va + (psz s + N.of_nat i * psz s)) with (va + psz s + N.of_nat i * psz s) by lia. auto.
    + inversion Heq. lia.
Qed.

(** * Calls that cannot panic, collected *)
Lemma free_ok pid ptr s : Inv2 s -> amem keqb (pid, ptr) (allocs s) = true -> exists s', free pid ptr s = Some s'.
Proof.
  intros (HI & [A1 _] & _) Hm. pose proof HI as (I1 & I2 & _). unfold free, amem in *.
  destruct (alookup keqb (pid, ptr) (allocs s)) as [n|] eqn:E; [|congruence].
  apply (alookup_In keqb keqb_eq) in E. rewrite Forall_forall in A1. destruct (A1 _ E) as (_ & _ & B3).
  apply free_loop_ok; cbn; auto.
  intros i Hi. change (psz (s <| allocs := adel keqb (pid, ptr) (allocs s) |>)) with (psz s).
  apply (B3 (N.of_nat i)). cbn. lia.
Qed.


(** n pages can be taken one by one from device dv (Device.allocatePage) *)
Definition page_target (s : st) (dv : nat) (n : N) : Prop :=
  exists d, nth_error (devs s) dv = Some d /\
    if is_unified (d_kind d) then rich (psz s) (devs s) (d_members d) n
    else n <= free_count (psz s) d.

Lemma allocate_ok pid bytes dv uni s : Inv2 s -> 0 < bytes -> page_target s dv (num_pages (psz s) bytes) ->
  exists r, allocate pid bytes dv uni s = Some r.
Proof.
  intros (HI & _ & K) Hb (d & Hn & Hcap). pose proof HI as (I1 & I2 & I3 & _).
  unfold allocate. replace (bytes =? 0) with false by (symmetry; apply N.eqb_neq; lia).
  unfold alloc_pages. assert (Hpos := psz_pos s).
  assert (Hfresh : forall i, (i < N.to_nat (num_pages (psz s) bytes))%nat ->
            amem keqb (pid, next_va_of s pid + N.of_nat i * psz s) (pt s) = false).
  { intros i Hi. apply (amem_false_iff keqb keqb_eq). intros Hin.
    unfold keys_below in K. rewrite Forall_forall in K. apply K in Hin. cbn in Hin. nia. }
  assert (Hs : exists s', alloc_loop (N.to_nat (num_pages (psz s) bytes)) pid (next_va_of s pid) dv uni s = Some s').
  { destruct (is_unified (d_kind d)) eqn:Eu.
    - eapply alloc_loop_ok_unified; eauto; [apply next_va_aligned; auto|rewrite N2Nat.id; auto].
    - eapply alloc_loop_ok; eauto; [apply next_va_aligned; auto|rewrite N2Nat.id; auto]. }
  destruct Hs as (s' & ->). eexists; reflexivity.
Qed.

(** The preconditions under which the real code does not panic:
    - Init, InitWithExistingPID, removeFreedBuffers: none;
    - CreateUnifiedGPU: a non-empty list of real GPUs; SelectGPU: an existing device;
    - AllocateMemory / AllocateUnifiedMemory of b > 0 bytes, n = ceil(b / page size): the target is an
      ordinary device with at least n free pages, or a unified device one of whose members has at least n;
    - FreeMemory: the pointer is the start of a live buffer of that process;
    - Remap of the n = ceil(bytes / page size) pages from addr: every page of the range is mapped for that
      process and the target is an ordinary device with at least max(n,1) free pages, or a unified device
      whose member at the rotation cursor has that many;
    - Distribute over one GPU: none; over several: addr page aligned, bytes > 0, the n pages of the range
      mapped, every listed device ordinary with at least n free pages (sufficient, not necessary);
    - migration preparation: the page is mapped and the target is an ordinary device with a free page. *)
Definition op_ok (s : st) (o : op) : Prop :=
  match o with
  | OInit | OInitPid _ | ORmFreed _ => True
  | OUnify ids => (0 < length ids)%nat /\ all_gpus (devs s) ids = true
  | OSelect c d => (N.to_nat d < length (devs s))%nat
  | OAlloc c bytes => forall x, nth_error (ctxs s) (N.to_nat c) = Some x ->
      0 < bytes /\ page_target s (c_cur x) (num_pages (psz s) bytes)
  | OAllocU c bytes => 0 < bytes /\ page_target s 1 (num_pages (psz s) bytes)
  | OFree c ptr => forall x, nth_error (ctxs s) (N.to_nat c) = Some x ->
      amem keqb (c_pid x, ptr) (allocs s) = true
  | ORemap c addr bytes d => forall x, nth_error (ctxs s) (N.to_nat c) = Some x ->
      block_ok s (N.to_nat d) (remap_count (psz s) bytes) /\
      range_mapped s (c_pid x) addr (remap_count (psz s) bytes)
  | ODist c addr bytes ids => forall x, nth_error (ctxs s) (N.to_nat c) = Some x ->
      dist_ok s (c_pid x) addr bytes ids
  | OMig c va gpu => forall x, nth_error (ctxs s) (N.to_nat c) = Some x ->
      amem keqb (c_pid x, va) (pt s) = true /\
      exists d, nth_error (devs s) (N.to_nat (gpu + 1)) = Some d /\ is_unified (d_kind d) = false /\
                1 <= free_count (psz s) d
  end.

Theorem step_no_crash s o : Inv2 s -> crashed s = false -> op_ok s o -> crashed (fst (step s o)) = false.
Proof.
  intros H2 Hc Hok. pose proof H2 as (HI & _). unfold step. rewrite Hc.
  destruct o; cbn in Hok; unfold with_ctx.
  - (* OInit *) cbn. auto.
  - (* OInitPid *) destruct (nth_error (ctxs s) (N.to_nat c)); cbn; auto.
  - (* OUnify *) destruct Hok as [H1 H3].
    replace (length ids =? 0)%nat with false by (symmetry; apply Nat.eqb_neq; lia).
    rewrite H3. cbn. auto.
  - (* OSelect *) destruct (nth_error (ctxs s) (N.to_nat c)); cbn [fst]; auto.
    replace (length (devs s) <=? N.to_nat d)%nat with false by (symmetry; apply Nat.leb_gt; lia). cbn. auto.
  - (* OAlloc *) destruct (nth_error (ctxs s) (N.to_nat c)) as [x|] eqn:Ex; cbn [fst]; auto.
    destruct (Hok x eq_refl) as [Hb Hr].
    destruct (allocate (c_pid x) bytes (c_cur x) false s) as [[ptr s']|] eqn:E.
    + cbn. unfold allocate in E. destruct (bytes =? 0); [congruence|].
      destruct (alloc_pages_Inv _ _ _ _ _ _ _ HI E) as (_ & _ & _ & Hcr & _). congruence.
    + destruct (allocate_ok (c_pid x) bytes (c_cur x) false s H2 Hb Hr) as (r & Hr'). congruence.
  - (* OAllocU *) destruct (nth_error (ctxs s) (N.to_nat c)) as [x|] eqn:Ex; cbn [fst]; auto.
    destruct Hok as [Hb Hr].
    destruct (allocate (c_pid x) bytes 1 true s) as [[ptr s']|] eqn:E.
    + cbn. unfold allocate in E. destruct (bytes =? 0); [congruence|].
      destruct (alloc_pages_Inv _ _ _ _ _ _ _ HI E) as (_ & _ & _ & Hcr & _). congruence.
    + destruct (allocate_ok (c_pid x) bytes 1 true s H2 Hb Hr) as (r & Hr'). congruence.
  - (* OFree *) destruct (nth_error (ctxs s) (N.to_nat c)) as [x|] eqn:Ex; cbn [fst]; auto.
    destruct (free (c_pid x) ptr s) as [s'|] eqn:E.
    + cbn. destruct (free_Inv _ _ _ _ HI E) as (_ & _ & _ & Hcr). congruence.
    + destruct (free_ok (c_pid x) ptr s H2 (Hok x eq_refl)) as (r & Hr'). congruence.
  - (* ORemap *) destruct (nth_error (ctxs s) (N.to_nat c)) as [x|] eqn:Ex; cbn [fst]; auto.
    destruct (Hok x eq_refl) as [Hb Hr]. pose proof HI as (I1 & I2 & _).
    destruct (remap (c_pid x) addr bytes (N.to_nat d) s) as [s'|] eqn:E.
    + cbn. destruct (remap_grow _ _ _ _ _ _ I1 I2 E) as [G _].
      destruct (grow_fields _ _ G) as (_ & _ & _ & _ & Hcr). congruence.
    + destruct (remap_ok (c_pid x) addr bytes (N.to_nat d) s I1 I2 Hb Hr) as (r & Hr'). congruence.
  - (* ODist *) destruct (nth_error (ctxs s) (N.to_nat c)) as [x|] eqn:Ex; cbn [fst]; auto.
    destruct (distribute (c_pid x) addr bytes ids s) as [[res s']|] eqn:E.
    + cbn. pose proof (distribute_grow _ _ _ _ _ _ _ HI E) as G.
      destruct (grow_fields _ _ G) as (_ & _ & _ & _ & Hcr). congruence.
    + destruct (distribute_ok (c_pid x) addr bytes ids s HI (Hok x eq_refl)) as (r & Hr'). congruence.
  - (* OMig *) destruct (nth_error (ctxs s) (N.to_nat c)) as [x|] eqn:Ex; cbn [fst]; auto.
    destruct (Hok x eq_refl) as (Hk & d & Hd & Hu & Hcap). pose proof HI as (I1 & I2 & _).
    assert (Hpos := psz_pos s).
    assert (Hfind : pt_find s (c_pid x) va = alookup keqb (c_pid x, va) (pt s)).
    { unfold pt_find. unfold amem in Hk. destruct (alookup keqb (c_pid x, va) (pt s)) as [pg0|] eqn:El; [|congruence].
      pose proof I1 as (_ & _ & F). rewrite Forall_forall in F.
      destruct (F _ (alookup_In keqb keqb_eq _ _ _ El)) as (E1 & E2 & _). cbn in E1, E2.
      inversion E1 as [[Hp Hv]]. rewrite (aligned_div_mul (psz s) (p_va pg0) Hpos E2). rewrite <- Hv. exact El. }
    rewrite Hfind. unfold amem in Hk. destruct (alookup keqb (c_pid x, va) (pt s)) as [old|] eqn:El; [|congruence].
    destruct (alloc_given (c_pid x) (N.to_nat (gpu + 1)) va true s) as [[pg s']|] eqn:E.
    + destruct (alloc_given_spec _ _ _ _ _ _ _ I1 I2 E) as (_ & _ & G3 & _ & _ & Hks & Hpid & Hva & Hpt & _).
      unfold pt_update. rewrite Hpid, Hva, Hpt.
      assert (Hm : amem keqb (c_pid x, va) (aset keqb (c_pid x, va) pg (pt s)) = true).
      { rewrite (amem_keys _ _ (pt s)); [unfold amem; rewrite El; auto|]. rewrite <- Hpt. exact Hks. }
      rewrite Hm. cbn. rewrite G3. destruct s; cbn in *. exact Hc.
    + destruct (alloc_given_ok (c_pid x) (N.to_nat (gpu + 1)) va true s d I1 I2 Hd Hu Hcap) as (r & Hr').
      * unfold amem. rewrite El. auto.
      * congruence.
  - (* ORmFreed *) destruct (nth_error (ctxs s) (N.to_nat c)); cbn; auto.
Qed.

(** histories *)
Definition Good2 (s : st) : Prop := crashed s = true \/ Inv2 s.

Lemma step_good2 s o : Good2 s -> op_guard s o -> Good2 (fst (step s o)).
Proof.
  intros [Hc|HI] Hg.
  - left. unfold step. rewrite Hc. auto.
  - destruct (crashed s) eqn:Hc; [left; unfold step; rewrite Hc; auto|].
    destruct (crashed (fst (step s o))) eqn:Hn; [left; auto|]. right.
    apply step_Inv2; auto.
Qed.

Lemma run_good2 ops : forall s, Good2 s -> guarded s ops -> Good2 (run s ops).
Proof.
  induction ops as [|o r IH]; cbn; intros s H Hg; auto.
  destruct Hg. apply IH; auto. apply step_good2; auto.
Qed.

Lemma fold_reg_allocs l gpus : forall s0, allocs s0 = [] ->
  allocs (fold_left (fun s n => reg_dev KGpu (n * 2 ^ l) s) gpus s0) = [].
Proof. induction gpus; cbn; auto. Qed.

Lemma init_Inv2 l gpus : l <= 32 -> Inv2 (init l gpus).
Proof.
  intros Hl. destruct (init_ok l gpus Hl) as (H1 & H2 & H3 & H4 & H5 & H6 & H7).
  split; [apply init_Inv; auto|].
  assert (Ha : allocs (init l gpus) = []) by (unfold init; apply fold_reg_allocs; reflexivity).
  unfold allocs_ok, keys_below. rewrite Ha, H2. cbn. splits; constructor.
Qed.

