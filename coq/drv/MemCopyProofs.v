(** Proofs about the driver's copy loops and the flush decision. *)
From Coq Require Import List NArith Bool Lia ZifyN ZifyNat ZifyBool.
From VLib Require Import Chunks ChunksProofs.
From VMem Require Import StorageAccessor StorageAccessorProofs.
From VDrv Require Import MemCopy.
Import ListNotations.
Open Scope N_scope.

Lemma look_drv_eq_acc : forall lg pt, pt_wf lg pt -> forall a, look_drv lg pt a = look_acc lg pt a.
Proof.
  intros lg pt Hw a. unfold look_drv, look_acc.
  destruct (pt (align lg a)) as [pg|] eqn:E; [|reflexivity].
  destruct (Hw _ _ E) as [Hv Hs]. rewrite Hv, Hs. f_equal. f_equal.
  pose proof (align_spec lg a). pose proof (pow2_pos lg).
  unfold align in *. nia.
Qed.

Lemma look_drv_pos : forall lg pt, pt_wf lg pt -> look_pos (look_drv lg pt).
Proof. intros lg pt Hw a pa r H. rewrite look_drv_eq_acc in H by assumption. eapply look_acc_pos; eauto. Qed.

Lemma look_drv_linear : forall lg pt, pt_wf lg pt -> look_linear (look_drv lg pt).
Proof.
  intros lg pt Hw a pa r i H Hi. rewrite look_drv_eq_acc in * by assumption.
  eapply look_acc_linear; eauto.
Qed.

Lemma tr_drv_eq_acc : forall lg pt, pt_wf lg pt -> forall v, tr (look_drv lg pt) v = tr (look_acc lg pt) v.
Proof. intros. unfold tr. rewrite look_drv_eq_acc by assumption. reflexivity. Qed.

(** memRangeOverlap *)
Lemma overlap_iff : forall s1 e1 s2 e2, s1 < e1 -> s2 < e2 ->
  (mem_range_overlap s1 e1 s2 e2 = true <-> exists x, s1 <= x < e1 /\ s2 <= x < e2).
Proof.
  intros. unfold mem_range_overlap. split.
  - intros Hb. exists (N.max s1 s2). lia.
  - intros [x Hx]. lia.
Qed.

Lemma overlap_old_refuted :
  ~ (forall s1 e1 s2 e2, s1 < e1 -> s2 < e2 ->
     (mem_range_overlap_old s1 e1 s2 e2 = true <-> exists x, s1 <= x < e1 /\ s2 <= x < e2)).
Proof.
  intros H. specialize (H 100 200 50 300 eq_refl eq_refl). destruct H as [_ H].
  assert (E : mem_range_overlap_old 100 200 50 300 = true) by (apply H; exists 150; lia).
  vm_compute in E. discriminate.
Qed.

Lemma overlap_old_partial : forall s1 e1 s2 e2, s1 < e1 -> s2 < e2 ->
  (mem_range_overlap_old s1 e1 s2 e2 = true -> exists x, s1 <= x < e1 /\ s2 <= x < e2) /\
  (~ (s2 < s1 /\ e1 < e2) -> (exists x, s1 <= x < e1 /\ s2 <= x < e2) -> mem_range_overlap_old s1 e1 s2 e2 = true).
Proof.
  intros. unfold mem_range_overlap_old. split.
  - intros Hb. exists (N.max s1 s2). lia.
  - intros Hg [x Hx]. lia.
Qed.

Lemma old_differs_only_on_containment : forall s1 e1 s2 e2, s1 < e1 -> s2 < e2 ->
  mem_range_overlap_old s1 e1 s2 e2 <> mem_range_overlap s1 e1 s2 e2 -> s2 < s1 /\ e1 < e2.
Proof. intros s1 e1 s2 e2 H1 H2. unfold mem_range_overlap_old, mem_range_overlap. lia. Qed.

Lemma need_flushing_iff : forall bufs a n, 0 < n -> Forall (fun b => 0 < b_size b) bufs ->
  (need_flushing bufs a n = true <->
   exists b x, In b bufs /\ b_dirty b = true /\ b_start b <= x < b_start b + b_size b /\ a <= x < a + n).
Proof.
  intros bufs a n Hn Hb. unfold need_flushing, need_flushing_with. rewrite existsb_exists. split.
  - intros (b & Hin & Hx). apply andb_true_iff in Hx. destruct Hx as [Ho Hd].
    rewrite Forall_forall in Hb. apply overlap_iff in Ho; [|specialize (Hb b Hin); cbn in Hb; lia|lia].
    destruct Ho as [x Hx]. exists b, x. tauto.
  - intros (b & x & Hin & Hd & H1 & H2). exists b. split; [assumption|].
    apply andb_true_iff. split; [|assumption].
    rewrite Forall_forall in Hb. apply overlap_iff; [specialize (Hb b Hin); cbn in Hb; lia|lia|].
    exists x. tauto.
Qed.

(** The flush decision with the function as found: a dirty buffer strictly inside the copy range is missed. *)
Lemma need_flushing_old_misses :
  need_flushing_with mem_range_overlap_old [mkBuf 100 100 true] 50 250 = false /\
  need_flushing [mkBuf 100 100 true] 50 250 = true.
Proof. split; reflexivity. Qed.

(** Requests of the default middleware: one per piece, same address and length, owner by address. *)
Lemma reqs_of_spec : forall devs l rs, reqs_of devs l = Some rs ->
  length rs = length l /\
  forall k p, nth_error l k = Some p ->
    exists id, nth_error rs k = Some (id, p_pa p, p_len p) /\ device_of devs (p_pa p) = Some id /\ id <> 0.
Proof.
  induction l as [|p l IH]; cbn; intros rs H.
  - inversion H. split; [reflexivity|]. intros [|k] q Hq; discriminate.
  - destruct (device_of devs (p_pa p)) as [id|] eqn:D; [|discriminate].
    destruct (reqs_of devs l) as [rs'|] eqn:R; [|discriminate].
    destruct (id =? 0) eqn:Z; [discriminate|]. inversion H; subst. clear H.
    destruct (IH _ eq_refl) as [Hl Hn]. split; [cbn; lia|].
    intros [|k] q Hq; cbn in *.
    + inversion Hq; subst. exists id. repeat split; auto. apply N.eqb_neq. assumption.
    + apply Hn. assumption.
Qed.

Lemma device_of_range : forall devs pa id, device_of devs pa = Some id ->
  exists lo sz, In (id, lo, sz) devs /\ lo <= pa < lo + sz.
Proof.
  induction devs as [|[[i lo] sz] r IH]; cbn; intros pa id H; [discriminate|].
  destruct ((lo <=? pa) && (pa <? lo + sz)) eqn:E.
  - inversion H; subst. exists lo, sz. split; [auto|lia].
  - destruct (IH _ _ H) as (lo' & sz' & Hin & Hr). exists lo', sz'. auto.
Qed.

(** What a successful lookup of the driver loop says, for a well-formed table. *)
Lemma look_drv_inv : forall lg pt, pt_wf lg pt -> forall a pa room,
  look_drv lg pt a = Some (pa, room) ->
  exists pg, pt (align lg a) = Some pg /\ pa = pg_p pg + (a - align lg a) /\ room = 2 ^ lg - a mod 2 ^ lg.
Proof.
  intros lg pt Hw a pa room H. unfold look_drv in H.
  destruct (pt (align lg a)) as [pg|] eqn:E; [|discriminate]. injection H as <- <-.
  destruct (Hw _ _ E) as [Hv Hs]. exists pg. rewrite Hv, Hs.
  pose proof (align_spec lg a). repeat split; auto. lia.
Qed.

Lemma look_acc_inv : forall lg pt, pt_wf lg pt -> forall a pa room,
  look_acc lg pt a = Some (pa, room) ->
  exists pg, pt (align lg a) = Some pg /\ pa = pg_p pg + (a - align lg a) /\ room = 2 ^ lg - a mod 2 ^ lg.
Proof. intros lg pt Hw a pa room H. rewrite <- look_drv_eq_acc in H by assumption. eapply look_drv_inv; eauto. Qed.

Lemma inj_on_acc : forall lg pt, pt_wf lg pt -> frames_disjoint lg pt -> forall addr len l,
  Tiles (look_acc lg pt) 0 addr len l -> inj_on (look_acc lg pt) addr len.
Proof.
  intros lg pt Hw Hd addr len l HT v1 v2 H1 H2 E.
  pose proof (tiles_mapped _ (look_acc_linear lg pt Hw) _ _ _ _ HT) as Hm.
  eapply tr_acc_inj; eauto; apply look_acc_mapped; apply Hm; assumption.
Qed.

Lemma tiles_ext : forall look1 look2, (forall a, look1 a = look2 a) -> forall off addr left l,
  Tiles look1 off addr left l -> Tiles look2 off addr left l.
Proof. intros look1 look2 He. induction 1; econstructor; eauto. rewrite <- He. assumption. Qed.

Lemma inj_on_drv : forall lg pt, pt_wf lg pt -> frames_disjoint lg pt -> forall addr len l,
  Tiles (look_drv lg pt) 0 addr len l -> inj_on (look_drv lg pt) addr len.
Proof.
  intros lg pt Hw Hd addr len l HT v1 v2 H1 H2 E. rewrite !tr_drv_eq_acc in E by assumption.
  eapply (inj_on_acc lg pt Hw Hd addr len l); eauto.
  eapply tiles_ext; [|exact HT]. intros a. apply look_drv_eq_acc. assumption.
Qed.

(** A line-by-line transfer of one piece is the transfer of the piece. *)
Lemma lines_equal_piece : forall lg pa n l, split (look_unit lg) pa n = Ok l ->
  forall data m x, h2d data l m x = blit m pa n data x.
Proof.
  intros lg pa n l Hs data m x. apply split_tiles in Hs. unfold blit.
  destruct ((pa <=? x) && (x <? pa + n)) eqn:E.
  - replace x with (tr (look_unit lg) x) at 1 by apply tr_unit.
    rewrite (h2d_hit _ (look_unit_linear lg) _ _ _ _ Hs) by (try lia; intros v1 v2 _ _ Ht; exact Ht).
    f_equal.
  - apply (h2d_frame _ (look_unit_linear lg) _ _ _ _ Hs). intros v Hv. rewrite tr_unit. lia.
Qed.

Lemma lines_read_piece : forall lg pa n l, split (look_unit lg) pa n = Ok l ->
  forall m buf i, d2h m l buf i = blit buf 0 n (fun k => m (pa + k)) i.
Proof.
  intros lg pa n l Hs m buf i. apply split_tiles in Hs. unfold blit.
  destruct ((0 <=? i) && (i <? 0 + n)) eqn:E.
  - rewrite (d2h_hit _ (look_unit_linear lg) _ _ _ _ Hs) by lia. rewrite tr_unit. reflexivity.
  - apply (d2h_frame _ _ _ _ _ Hs). lia.
Qed.
