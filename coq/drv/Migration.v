(** Pure model of the driver side of a page migration:
    Driver.preparePageForMigration (amd/driver/driver.go) on top of
    memoryAllocatorImpl.allocatePageWithGivenVAddr
    (amd/driver/internal/memoryallocator.go), the regular (free-list) device
    memory state and akita's vm.PageTable; and the one-request-at-a-time
    counters of sendMigrationReqToCP / processPageMigrationRspFromCP.
    Self-contained on purpose (the allocator model of C10 is separate).
    Definitions only. *)
From Coq Require Export List NArith Bool Lia.
Export ListNotations.
Open Scope N_scope.

Record page := mkPage {   (* vm.Page *)
  pg_pid : N; pg_paddr : N; pg_vaddr : N; pg_size : N; pg_valid : bool;
  pg_device : N; pg_unified : bool; pg_migrating : bool; pg_pinned : bool }.

Record drv := mkDrv {
  d_log2 : N;                       (* log2PageSize *)
  d_pt : list page;                 (* page table entries of all processes *)
  d_alloc : N -> list N;            (* per device: availablePAddrs (regular memory state) *)
  d_mirror : list (N * page)        (* vAddrToPageMapping, keyed by the virtual address only *)
}.

Definition pt_align (d : drv) (va : N) : N := (va / 2 ^ d_log2 d) * 2 ^ d_log2 d.

Definition same_key (pid va : N) (p : page) : bool := (pg_pid p =? pid) && (pg_vaddr p =? va).

(** processTable.find (pageTableImpl.Find aligns the address first) *)
Definition pt_lookup (pt : list page) (pid va : N) : option page := find (same_key pid va) pt.
Definition pt_find_in (d : drv) (pt : list page) (pid va : N) : option page :=
  pt_lookup pt pid (pt_align d va).

(** processTable.update: the entry must exist ("page does not exist" panic = None) *)
Fixpoint pt_update (pt : list page) (pg : page) : option (list page) :=
  match pt with
  | [] => None
  | p :: r => if same_key (pg_pid pg) (pg_vaddr pg) p then Some (pg :: r)
              else match pt_update r pg with Some r' => Some (p :: r') | None => None end
  end.

Definition set_alloc (f : N -> list N) (dev : N) (l : list N) : N -> list N :=
  fun x => if x =? dev then l else f x.

(** allocatePageWithGivenVAddr: Device.allocatePage ("out of memory" panic =
    None) of a plain (non-unified) device, mirror entry, pageTable.Update *)
Definition allocate_page_with_given_vaddr (d : drv) (pid dev va : N) (unified : bool)
  : option (drv * page) :=
  match d_alloc d dev with
  | [] => None
  | pa :: rest =>
    let pg := mkPage pid pa va (2 ^ d_log2 d) true dev unified false false in
    match pt_update (d_pt d) pg with
    | None => None
    | Some pt' =>
      Some (mkDrv (d_log2 d) pt' (set_alloc (d_alloc d) dev rest) ((va, pg) :: d_mirror d), pg)
    end
  end.

(** preparePageForMigration: result (driver state, new page, old physical address) *)
Definition prepare_page_for_migration (d : drv) (pid va gpu : N) : option (drv * page * N) :=
  match pt_find_in d (d_pt d) pid va with
  | None => None                                  (* "page not founds" *)
  | Some old =>
    match allocate_page_with_given_vaddr d pid (gpu + 1) va true with
    | None => None
    | Some (d1, np) =>
      let np' := mkPage (pg_pid np) (pg_paddr np) (pg_vaddr np) (pg_size np) (pg_valid np)
                        (gpu + 1) (pg_unified np) true (pg_pinned np) in
      match pt_update (d_pt d1) np' with
      | None => None
      | Some pt2 => Some (mkDrv (d_log2 d1) pt2 (d_alloc d1) (d_mirror d1), np', pg_paddr old)
      end
    end
  end.

Definition dev_can_alloc (d : drv) (dev : N) : bool :=
  match d_alloc d dev with [] => false | _ => true end.

(** * The page-at-a-time counters of the driver *)
Record dq := mkDq {
  dq_queue : nat;        (* len(migrationReqToSendToCP) *)
  dq_busy : bool;        (* isCurrentlyMigratingOnePage *)
  dq_ack : nat;          (* numPagesMigratingACK *)
  dq_inflight : nat      (* ghost: requests sent to a command processor and not yet answered *)
}.
Definition drv_init : dq := mkDq 0 false 0 0.

Inductive dev_ev :=
| DEnqueue (n : nat)     (* processShootdownCompleteRsp queued n page requests *)
| DSend (accepted : bool)(* sendMigrationReqToCP; the port accepts or refuses *)
| DRsp.                  (* a PageMigrationRspToDriver arrives (only for a request in flight) *)

Definition drv_step (d : dq) (e : dev_ev) : dq :=
  match e with
  | DEnqueue n => mkDq (dq_queue d + n) (dq_busy d) (dq_ack d + n) (dq_inflight d)
  | DSend ok =>
    match dq_queue d with
    | O => d
    | S q => if dq_busy d then d
             else if ok then mkDq q true (dq_ack d) (S (dq_inflight d)) else d
    end
  | DRsp =>
    match dq_inflight d with
    | O => d
    | S k => mkDq (dq_queue d) false (dq_ack d - 1) k
    end
  end.
Definition drv_run (d : dq) (evs : list dev_ev) : dq := fold_left drv_step evs d.

(** * Correspondence with recorded calls of the real preparePageForMigration *)
Definition page_eqb (a b : page) : bool :=
  (pg_pid a =? pg_pid b) && (pg_paddr a =? pg_paddr b) && (pg_vaddr a =? pg_vaddr b) &&
  (pg_size a =? pg_size b) && Bool.eqb (pg_valid a) (pg_valid b) && (pg_device a =? pg_device b) &&
  Bool.eqb (pg_unified a) (pg_unified b) && Bool.eqb (pg_migrating a) (pg_migrating b) &&
  Bool.eqb (pg_pinned a) (pg_pinned b).

Definition opage_eqb (a b : option page) : bool :=
  match a, b with
  | None, None => true
  | Some x, Some y => page_eqb x y
  | _, _ => false
  end.

Fixpoint nlist_eqb (a b : list N) : bool :=
  match a, b with
  | [], [] => true
  | x :: a', y :: b' => (x =? y) && nlist_eqb a' b'
  | _, _ => false
  end.

Definition alloc_of (l : list (N * list N)) : N -> list N :=
  fun dev => match find (fun p => fst p =? dev) l with Some (_, fl) => fl | None => [] end.

Record mcase := mkMCase {
  mc_log2 : N;
  mc_pt : list page;                       (* every page the real table held before the call *)
  mc_free : list (N * list N);             (* free lists of the GPU devices before the call *)
  mc_pid : N; mc_va : N; mc_gpu : N;
  mc_result : option (page * N);           (* None: the real call panicked *)
  mc_probes : list (N * N * option page);  (* (pid, address, result of PageTable.Find after the call) *)
  mc_free_after : list (N * list N)
}.

Definition check_mcase (c : mcase) : bool :=
  let d := mkDrv (mc_log2 c) (mc_pt c) (alloc_of (mc_free c)) [] in
  match prepare_page_for_migration d (mc_pid c) (mc_va c) (mc_gpu c), mc_result c with
  | None, None => true
  | Some (d', np, old), Some (np', old') =>
    page_eqb np np' && (old =? old') &&
    forallb (fun p => opage_eqb (pt_find_in d' (d_pt d') (fst (fst p)) (snd (fst p))) (snd p)) (mc_probes c) &&
    forallb (fun p => nlist_eqb (d_alloc d' (fst p)) (snd p)) (mc_free_after c)
  | _, _ => false
  end.

Fixpoint mmismatches_from (i : N) (cs : list mcase) : list (N * N) :=
  match cs with
  | [] => []
  | c :: r => if check_mcase c then mmismatches_from (i + 1) r else (i, 0) :: mmismatches_from (i + 1) r
  end.
Definition mmismatches := mmismatches_from 0.
