(** Proofs about the buddy-allocator model Buddy.v (property C10): after the
    repair of allocateMultiplePages (the parent's merge bit is toggled for
    every block taken from a free list) no history on a device of 2^k pages
    hands out a page that is still live. *)
From Coq Require Import List NArith ZArith Bool Arith Lia ZifyN ZifyNat ZifyBool.
From RecordUpdate Require Import RecordSet.
Import ListNotations RecordSetNotations.
From VDrv Require Import Buddy.
Open Scope N_scope.

Ltac splits := repeat match goal with |- _ /\ _ => split end.

(** * Geometry of the block tree *)
(** size of a block at level l of a device with 2^ord pages *)
Definition szl (ord l : N) : N := 2 ^ (ord - l) * 4096.

(** the device has ord+1 levels and 2^ord pages *)
Definition wfg (b : buddy) (ord : N) : Prop :=
  N.of_nat (length (b_free b)) = ord + 1 /\ b_size b = 2 ^ ord * 4096.

Definition addr (b : buddy) (ord l j : N) : N := b_base b + j * szl ord l.
Definition idx (l j : N) : N := 2 ^ l + j - 1.

Lemma pow2_pos n : 0 < 2 ^ n.
Proof. apply N.neq_0_lt_0. apply N.pow_nonzero. lia. Qed.

Lemma szl_pos ord l : 0 < szl ord l.
Proof. unfold szl. pose proof (pow2_pos (ord - l)). lia. Qed.

Lemma pow2_split a b : b <= a -> 2 ^ a = 2 ^ b * 2 ^ (a - b).
Proof. intros H. rewrite <- N.pow_add_r. f_equal. lia. Qed.

Lemma szl_le ord l l' : l <= l' -> l' <= ord -> szl ord l = 2 ^ (l' - l) * szl ord l'.
Proof.
  intros H1 H2. unfold szl. rewrite (pow2_split (ord - l) (l' - l)) by lia.
  replace (ord - l - (l' - l)) with (ord - l') by lia. lia.
Qed.

Lemma szl_double ord l : l < ord -> szl ord l = 2 * szl ord (l + 1).
Proof. intros H. rewrite (szl_le ord l (l + 1)) by lia. replace (l + 1 - l) with 1 by lia. reflexivity. Qed.

Lemma levels_wfg b ord : wfg b ord -> levels b = ord.
Proof. intros [H _]. unfold levels. lia. Qed.

Lemma size_of_level_eq b ord l : wfg b ord -> l <= ord -> size_of_level b l = szl ord l.
Proof.
  intros [_ Hs] Hl. unfold size_of_level, szl. rewrite Hs, (pow2_split ord l) by lia.
  replace (2 ^ l * 2 ^ (ord - l) * 4096) with (2 ^ (ord - l) * 4096 * 2 ^ l) by lia.
  apply N.div_mul. pose proof (pow2_pos l). lia.
Qed.

(** index of the ancestor / leftmost descendant at level l of the block (l', j') *)
Lemma index_up b ord l l' j' : wfg b ord -> l <= l' -> l' <= ord ->
  index_in_level b (addr b ord l' j') l = j' / 2 ^ (l' - l).
Proof.
  intros Hw H1 H2. unfold index_in_level, addr. rewrite (size_of_level_eq b ord l Hw) by lia.
  replace (b_base b + j' * szl ord l' - b_base b) with (j' * szl ord l') by lia.
  rewrite (szl_le ord l l') by lia. apply N.div_mul_cancel_r.
  - pose proof (pow2_pos (l' - l)). lia.
  - pose proof (szl_pos ord l'). lia.
Qed.

Lemma index_down b ord l l' j' : wfg b ord -> l' <= l -> l <= ord ->
  index_in_level b (addr b ord l' j') l = j' * 2 ^ (l - l').
Proof.
  intros Hw H1 H2. unfold index_in_level, addr. rewrite (size_of_level_eq b ord l Hw) by lia.
  replace (b_base b + j' * szl ord l' - b_base b) with (j' * szl ord l') by lia.
  rewrite (szl_le ord l' l) by lia.
  replace (j' * (2 ^ (l - l') * szl ord l)) with (j' * 2 ^ (l - l') * szl ord l) by lia.
  apply N.div_mul. pose proof (szl_pos ord l). lia.
Qed.

Lemma index_same b ord l j : wfg b ord -> l <= ord -> index_in_level b (addr b ord l j) l = j.
Proof. intros Hw Hl. rewrite (index_up b ord l l j) by (auto; lia). rewrite N.sub_diag. cbn. apply N.div_1_r. Qed.

Lemma addr_left b ord l j : l < ord -> addr b ord l j = addr b ord (l + 1) (2 * j).
Proof. intros H. unfold addr. rewrite (szl_double ord l) by auto. lia. Qed.

Lemma addr_inj b ord l j j' : addr b ord l j = addr b ord l j' -> j = j'.
Proof. unfold addr. pose proof (szl_pos ord l). intros H0. nia. Qed.

Lemma addr_desc b ord l l' j : l <= l' -> l' <= ord -> addr b ord l j = addr b ord l' (j * 2 ^ (l' - l)).
Proof. intros H1 H2. unfold addr. rewrite (szl_le ord l l') by lia. lia. Qed.

(** heap numbering of the nodes is injective *)
Lemma idx_bounds l j : j < 2 ^ l -> 2 ^ l - 1 <= idx l j /\ idx l j < 2 ^ (l + 1) - 1.
Proof. intros H. unfold idx. rewrite N.pow_add_r. cbn. pose proof (pow2_pos l). lia. Qed.

Lemma pow2_mono a b : a < b -> 2 ^ (a + 1) <= 2 ^ b.
Proof. intros H. apply N.pow_le_mono_r; lia. Qed.

Lemma idx_inj l j l' j' : j < 2 ^ l -> j' < 2 ^ l' -> idx l j = idx l' j' -> l = l' /\ j = j'.
Proof.
  intros H1 H2 He. pose proof (idx_bounds l j H1). pose proof (idx_bounds l' j' H2).
  pose proof (pow2_pos l). pose proof (pow2_pos l').
  destruct (N.lt_trichotomy l l') as [Hlt|[->|Hgt]].
  - pose proof (pow2_mono l l' Hlt). lia.
  - split; auto. unfold idx in He. lia.
  - pose proof (pow2_mono l' l Hgt). lia.
Qed.

Lemma half_lt l j : 0 < l -> j < 2 ^ l -> j / 2 < 2 ^ (l - 1).
Proof.
  intros Hl Hj. replace l with (l - 1 + 1) in Hj by lia. rewrite N.pow_add_r in Hj. cbn in Hj.
  apply N.div_lt_upper_bound; lia.
Qed.

(** * Bit fields and free lists *)
Lemma existsb_eqb_In x l : existsb (N.eqb x) l = true <-> In x l.
Proof.
  rewrite existsb_exists. split.
  - intros (y & Hy & He). apply N.eqb_eq in He. subst. auto.
  - intros H. exists x. split; auto. apply N.eqb_refl.
Qed.

Lemma bit_toggle_same i l : bit i (toggle i l) = negb (bit i l).
Proof.
  unfold bit, toggle. destruct (existsb (N.eqb i) l) eqn:E; cbn.
  - apply not_true_iff_false. rewrite existsb_eqb_In, filter_In. intros [_ H].
    rewrite N.eqb_refl in H. discriminate.
  - rewrite N.eqb_refl. auto.
Qed.

Lemma bit_toggle_other i k l : i <> k -> bit k (toggle i l) = bit k l.
Proof.
  intros Hne. unfold bit, toggle. destruct (existsb (N.eqb i) l) eqn:E.
  - destruct (existsb (N.eqb k) l) eqn:E2.
    + apply existsb_eqb_In. apply filter_In. split; [apply existsb_eqb_In; auto|].
      apply negb_true_iff. apply N.eqb_neq. auto.
    + apply not_true_iff_false. rewrite existsb_eqb_In, filter_In. intros [H _].
      apply existsb_eqb_In in H. congruence.
  - cbn. replace (k =? i) with false by (symmetry; apply N.eqb_neq; auto). auto.
Qed.

Lemma set_nth_length {A} i (x : A) l : length (set_nth i x l) = length l.
Proof. revert i; induction l; destruct i; cbn; auto. Qed.

Lemma nth_set_nth_same {A} i (x d : A) l : (i < length l)%nat -> nth i (set_nth i x l) d = x.
Proof. revert i; induction l; destruct i; cbn; intros; try lia; auto. apply IHl. lia. Qed.

Lemma nth_set_nth_other {A} i j (x d : A) l : i <> j -> nth j (set_nth i x l) d = nth j l d.
Proof. revert i j; induction l; destruct i, j; cbn; intros; try congruence; auto. Qed.

Lemma get_set_same b ord l x : wfg b ord -> l <= ord -> get_level (set_level b l x) l = x.
Proof.
  intros [Hl _] H. unfold get_level, set_level. cbn. apply nth_set_nth_same. lia.
Qed.

Lemma get_set_other b l l' x : l <> l' -> get_level (set_level b l x) l' = get_level b l'.
Proof.
  intros H. unfold get_level, set_level. cbn. apply nth_set_nth_other. lia.
Qed.

Lemma wfg_set_level b ord l x : wfg b ord -> wfg (set_level b l x) ord.
Proof. intros [H1 H2]. split; auto. unfold set_level. cbn. rewrite set_nth_length. auto. Qed.

(** * Status of the nodes, read off the concrete state *)
Definition fr (b : buddy) (ord l j : N) : bool := existsb (N.eqb (addr b ord l j)) (get_level b l).
Definition sp (b : buddy) (ord l j : N) : bool := (l <? ord) && bit (idx l j) (b_split b).
Definition mg (b : buddy) (l j : N) : bool := bit (idx l j) (b_merge b).
Definition al (b : buddy) (ord l j : N) : bool :=
  existsb (fun e => (fst (fst e) =? addr b ord l j) && (snd (fst e) =? l)) (b_blocks b).
(** the node exists in the current partition of the device *)
Definition pr (b : buddy) (ord l j : N) : bool := (l =? 0) || sp b ord (l - 1) (j / 2).

Definition neq (l j l' j' : N) : bool := (l =? l') && (j =? j').
(** at most one node is "in transit": taken from a free list / released, not
    yet entered anywhere, and counted as busy by its parent's merge bit *)
Definition hole (h : option (N * N)) (l j : N) : bool :=
  match h with Some (l', j') => neq l j l' j' | None => false end.
Definition busy (b : buddy) (ord : N) (h : option (N * N)) (l j : N) : bool :=
  al b ord l j || sp b ord l j || hole h l j.

Definition one3 (a b c : bool) : bool :=
  (a && negb b && negb c) || (negb a && b && negb c) || (negb a && negb b && c).

Record binvH (b : buddy) (ord : N) (h : option (N * N)) : Prop := {
  bi_wfg : wfg b ord;
  bi_lists : forall l, l <= ord -> NoDup (get_level b l) /\
             forall a, In a (get_level b l) -> exists j, j < 2 ^ l /\ a = addr b ord l j;
  bi_blocks : NoDup (map fst (b_blocks b)) /\ NoDup (map snd (b_blocks b)) /\
              forall a l id, In (a, l, id) (b_blocks b) -> l <= ord /\ exists j, j < 2 ^ l /\ a = addr b ord l j;
  bi_one : forall l j, l <= ord -> j < 2 ^ l -> pr b ord l j = true ->
           if hole h l j then fr b ord l j = false /\ al b ord l j = false /\ sp b ord l j = false
           else one3 (fr b ord l j) (al b ord l j) (sp b ord l j) = true;
  bi_none : forall l j, l <= ord -> j < 2 ^ l -> pr b ord l j = false ->
            fr b ord l j = false /\ al b ord l j = false /\ sp b ord l j = false /\ hole h l j = false;
  bi_merge : forall l j, l < ord -> j < 2 ^ l ->
             mg b l j = sp b ord l j && xorb (busy b ord h (l + 1) (2 * j)) (busy b ord h (l + 1) (2 * j + 1));
  bi_hole : match h with Some (l, j) => l <= ord /\ j < 2 ^ l | None => True end
}.

Ltac Zify.zify_post_hook ::= Z.div_mod_to_equations.

(** decide the node comparisons in the goal by arithmetic *)
Ltac deq :=
  repeat match goal with
  | |- context [N.eqb ?a ?b] =>
      first [ replace (N.eqb a b) with true by (symmetry; apply N.eqb_eq; lia)
            | replace (N.eqb a b) with false by (symmetry; apply N.eqb_neq; lia) ]
  | |- context [N.ltb ?a ?b] =>
      first [ replace (N.ltb a b) with true by (symmetry; apply N.ltb_lt; lia)
            | replace (N.ltb a b) with false by (symmetry; apply N.ltb_ge; lia) ]
  end.

Lemma pow2_succ l : 2 ^ (l + 1) = 2 * 2 ^ l.
Proof. rewrite N.pow_add_r, N.pow_1_r. lia. Qed.

Lemma fr_In b ord l j : fr b ord l j = true <-> In (addr b ord l j) (get_level b l).
Proof. unfold fr. apply existsb_eqb_In. Qed.

Lemma al_In b ord l j : al b ord l j = true <-> exists id, In (addr b ord l j, l, id) (b_blocks b).
Proof.
  unfold al. rewrite existsb_exists. split.
  - intros ([[a l'] id] & Hin & He). cbn in He. apply andb_true_iff in He. destruct He as [H1 H2].
    apply N.eqb_eq in H1, H2. subst. exists id. auto.
  - intros (id & Hin). exists (addr b ord l j, l, id). split; auto. cbn. rewrite !N.eqb_refl. auto.
Qed.

(** ** reading the split bit fields after an update of another part of the state *)
Lemma split_upd b x : b_split (b <| b_split := x |>) = x. Proof. reflexivity. Qed.
Lemma merge_upd b x : b_merge (b <| b_merge := x |>) = x. Proof. reflexivity. Qed.
Lemma sp_toggle b ord l0 j0 l j : l0 < ord -> j0 < 2 ^ l0 -> l <= ord -> j < 2 ^ l ->
  sp (b <| b_split := toggle (idx l0 j0) (b_split b) |>) ord l j =
  if neq l j l0 j0 then negb (sp b ord l j) else sp b ord l j.
Proof.
  intros H0 Hj0 Hl Hj. unfold sp, neq. rewrite split_upd.
  destruct ((l =? l0) && (j =? j0)) eqn:E.
  - apply andb_true_iff in E. destruct E as [E1 E2]. apply N.eqb_eq in E1, E2. subst.
    rewrite bit_toggle_same. replace (l0 <? ord) with true by (symmetry; apply N.ltb_lt; lia). auto.
  - destruct (l <? ord) eqn:El; auto. cbn. rewrite bit_toggle_other; auto.
    intros He. apply idx_inj in He; auto. destruct He; subst. rewrite !N.eqb_refl in E. discriminate.
Qed.

Lemma mg_toggle b l0 j0 l j : j0 < 2 ^ l0 -> j < 2 ^ l ->
  mg (b <| b_merge := toggle (idx l0 j0) (b_merge b) |>) l j =
  if neq l j l0 j0 then negb (mg b l j) else mg b l j.
Proof.
  intros Hj0 Hj. unfold mg, neq. rewrite merge_upd.
  destruct ((l =? l0) && (j =? j0)) eqn:E.
  - apply andb_true_iff in E. destruct E as [E1 E2]. apply N.eqb_eq in E1, E2. subst. apply bit_toggle_same.
  - rewrite bit_toggle_other; auto.
    intros He. apply idx_inj in He; auto. destruct He; subst. rewrite !N.eqb_refl in E. discriminate.
Qed.

#[local] Arguments N.mul : simpl never.
#[local] Arguments N.add : simpl never.
#[local] Arguments N.sub : simpl never.
#[local] Arguments N.div : simpl never.
#[local] Arguments N.pow : simpl never.
#[local] Arguments N.eqb : simpl never.
#[local] Arguments N.ltb : simpl never.

(** * The partition tree, abstractly: status functions on nodes *)
Definition nfun := N -> N -> bool.
Definition upd (f : nfun) (l0 j0 : N) (v : bool) : nfun := fun l j => if neq l j l0 j0 then v else f l j.
Definition busyF (alf spf : nfun) (h : option (N * N)) (l j : N) : bool := alf l j || spf l j || hole h l j.
Definition none3 (frf alf spf : nfun) (l j : N) : Prop := frf l j = false /\ alf l j = false /\ spf l j = false.

(** the children of node (l, j) are (l+1, 2j) and (l+1, 2j+1); they exist iff
    (l, j) is split; an existing node is free, allocated, split, or the hole *)
Record tinv (ord : N) (frf alf spf mgf : nfun) (h : option (N * N)) : Prop := {
  t_root : if hole h 0 0 then none3 frf alf spf 0 0 else one3 (frf 0 0) (alf 0 0) (spf 0 0) = true;
  t_child : forall l j c, l < ord -> j < 2 ^ l -> c < 2 ->
            if spf l j
            then (if hole h (l + 1) (2 * j + c) then none3 frf alf spf (l + 1) (2 * j + c)
                  else one3 (frf (l + 1) (2 * j + c)) (alf (l + 1) (2 * j + c)) (spf (l + 1) (2 * j + c)) = true)
            else none3 frf alf spf (l + 1) (2 * j + c) /\ hole h (l + 1) (2 * j + c) = false;
  t_leaf : forall j, j < 2 ^ ord -> spf ord j = false;
  t_merge : forall l j, l < ord -> j < 2 ^ l ->
            mgf l j = spf l j && xorb (busyF alf spf h (l + 1) (2 * j)) (busyF alf spf h (l + 1) (2 * j + 1));
  t_hole : match h with Some (l, j) => l <= ord /\ j < 2 ^ l | None => True end
}.

Lemma child_valid l j c : j < 2 ^ l -> c < 2 -> 2 * j + c < 2 ^ (l + 1).
Proof. intros. rewrite pow2_succ. lia. Qed.

Lemma tinv_ext ord frf alf spf mgf frf' alf' spf' mgf' h :
  (forall l j, l <= ord -> j < 2 ^ l -> frf' l j = frf l j /\ alf' l j = alf l j /\ spf' l j = spf l j /\ mgf' l j = mgf l j) ->
  tinv ord frf alf spf mgf h -> tinv ord frf' alf' spf' mgf' h.
Proof.
  intros He [T1 T2 T3 T4 T5].
  assert (H0 : 0 < 2 ^ 0) by (apply pow2_pos).
  constructor; auto.
  - unfold none3 in *. destruct (He 0 0 ltac:(lia) H0) as (-> & -> & -> & _). auto.
  - intros l j c Hl Hj Hc. pose proof (child_valid l j c Hj Hc) as Hv. unfold none3 in *.
    destruct (He l j ltac:(lia) Hj) as (_ & _ & -> & _).
    destruct (He (l + 1) (2 * j + c) ltac:(lia) Hv) as (-> & -> & -> & _). apply T2; auto.
  - intros j Hj. destruct (He ord j (N.le_refl _) Hj) as (_ & _ & -> & _). apply T3; auto.
  - intros l j Hl Hj.
    pose proof (child_valid l j 0 Hj ltac:(lia)) as C1. pose proof (child_valid l j 1 Hj ltac:(lia)) as C2.
    rewrite N.add_0_r in C1.
    destruct (He l j ltac:(lia) Hj) as (_ & _ & -> & ->).
    unfold busyF.
    destruct (He (l + 1) (2 * j) ltac:(lia) C1) as (_ & -> & -> & _).
    destruct (He (l + 1) (2 * j + 1) ltac:(lia) C2) as (_ & -> & -> & _). apply T4; auto.
Qed.

Lemma neq_true l j l' j' : neq l j l' j' = true <-> l = l' /\ j = j'.
Proof. unfold neq. rewrite andb_true_iff, !N.eqb_eq. tauto. Qed.

Lemma neq_false l j l' j' : neq l j l' j' = false <-> (l <> l' \/ j <> j').
Proof. unfold neq. rewrite andb_false_iff, !N.eqb_neq. tauto. Qed.

Lemma neq_refl l j : neq l j l j = true.
Proof. apply neq_true. auto. Qed.

(** split every node comparison in the goal, turn the outcomes into arithmetic facts *)
Ltac nsplit :=
  repeat match goal with
  | |- context [neq ?a ?b ?c ?d] =>
      let E := fresh "E" in destruct (neq a b c d) eqn:E;
      [apply neq_true in E; destruct E | apply neq_false in E]
  end.

Ltac nsplit_all :=
  repeat match goal with
  | |- context [neq ?a ?b ?c ?d] =>
      let E := fresh "E" in destruct (neq a b c d) eqn:E;
      [apply neq_true in E; destruct E | apply neq_false in E]
  | H : context [neq ?a ?b ?c ?d] |- _ =>
      let E := fresh "E" in destruct (neq a b c d) eqn:E;
      [apply neq_true in E; destruct E | apply neq_false in E]
  end.

(** use the facts about status functions that are in the context *)
Ltac frew :=
  repeat match goal with
  | H : ?f ?a ?b = _ |- context [?f ?a ?b] => rewrite H
  end.

Ltac unone := unfold none3 in *;
  repeat match goal with H : _ /\ _ |- _ => destruct H end.

(** a child coordinate determines parent and side *)
Lemma child_eq l j c l' j' c' : c < 2 -> c' < 2 -> l + 1 = l' + 1 -> 2 * j + c = 2 * j' + c' ->
  l = l' /\ j = j' /\ c = c'.
Proof. intros. lia. Qed.

Lemma one3_fr a b : one3 true a b = true -> a = false /\ b = false.
Proof. destruct a, b; cbn; auto; discriminate. Qed.
Lemma one3_al a b : one3 a true b = true -> a = false /\ b = false.
Proof. destruct a, b; cbn; auto; discriminate. Qed.
Lemma one3_sp a b : one3 a b true = true -> a = false /\ b = false.
Proof. destruct a, b; cbn; auto; discriminate. Qed.

(** ** a block leaves its free list (child of (l0, j0), side c0) *)
Lemma T_take_child ord frf alf spf mgf l0 j0 c0 : tinv ord frf alf spf mgf None ->
  l0 < ord -> j0 < 2 ^ l0 -> c0 < 2 -> frf (l0 + 1) (2 * j0 + c0) = true ->
  tinv ord (upd frf (l0 + 1) (2 * j0 + c0) false) alf spf (upd mgf l0 j0 (negb (mgf l0 j0)))
       (Some (l0 + 1, 2 * j0 + c0)).
Proof.
  intros [T1 T2 T3 T4 _] Hl0 Hj0 Hc0 Hf.
  pose proof (T2 l0 j0 c0 Hl0 Hj0 Hc0) as K. cbn [hole] in K.
  destruct (spf l0 j0) eqn:Hsp; [|unone; congruence].
  rewrite Hf in K. apply one3_fr in K. destruct K as [Ka Ks].
  constructor.
  - cbn [hole] in *. unfold upd, none3 in *. nsplit; try lia. auto.
  - intros l j c Hl Hj Hc. specialize (T2 l j c Hl Hj Hc). cbn [hole] in *. unfold upd, none3 in *.
    destruct (spf l j) eqn:Es; nsplit; try lia; auto.
    + destruct (child_eq l j c l0 j0 c0) as (-> & -> & ->); auto.
    + destruct (child_eq l j c l0 j0 c0) as (-> & -> & ->); auto. congruence.
  - auto.
  - intros l j Hl Hj. specialize (T4 l j Hl Hj). unfold busyF, upd in *. cbn [hole] in *.
    assert (Hc : c0 = 0 \/ c0 = 1) by lia.
    destruct Hc as [-> | ->]; rewrite ?N.add_0_r in *; nsplit; try lia; subst;
      rewrite T4, ?Hsp, ?Ka, ?Ks; cbn; rewrite ?orb_false_r; auto.
    + destruct (alf (l0 + 1) (2 * j0 + 1) || spf (l0 + 1) (2 * j0 + 1)); auto.
    + destruct (alf (l0 + 1) (2 * j0) || spf (l0 + 1) (2 * j0)); auto.
  - cbn. split; [lia|apply child_valid; auto].
Qed.

Lemma T_take_root ord frf alf spf mgf : tinv ord frf alf spf mgf None -> frf 0 0 = true ->
  tinv ord (upd frf 0 0 false) alf spf mgf (Some (0, 0)).
Proof.
  intros [T1 T2 T3 T4 _] Hf. cbn [hole] in T1. rewrite Hf in T1. apply one3_fr in T1. destruct T1 as [Ka Ks].
  constructor.
  - cbn [hole]. rewrite neq_refl. unfold none3, upd. rewrite neq_refl. auto.
  - intros l j c Hl Hj Hc. specialize (T2 l j c Hl Hj Hc). cbn [hole] in *. unfold upd, none3 in *.
    destruct (spf l j); nsplit; try lia; auto.
  - auto.
  - intros l j Hl Hj. specialize (T4 l j Hl Hj). unfold busyF in *. cbn [hole] in *.
    nsplit; try lia. auto.
  - cbn. split; [lia|apply pow2_pos].
Qed.

(** what is known about the hole *)
Lemma hole_facts ord frf alf spf mgf i j0 : tinv ord frf alf spf mgf (Some (i, j0)) ->
  none3 frf alf spf i j0 /\
  (i < ord -> mgf i j0 = false /\ forall c, c < 2 -> none3 frf alf spf (i + 1) (2 * j0 + c)) /\
  (0 < i -> spf (i - 1) (j0 / 2) = true).
Proof.
  intros [T1 T2 T3 T4 T5]. cbn in T5. destruct T5 as [Hi Hj].
  assert (Hn : none3 frf alf spf i j0 /\ (0 < i -> spf (i - 1) (j0 / 2) = true)).
  { destruct (N.eq_dec i 0) as [->|Hne].
    - assert (j0 = 0) by (rewrite N.pow_0_r in Hj; lia). subst. cbn [hole] in T1. rewrite neq_refl in T1.
      split; auto. lia.
    - assert (Hj2 : j0 / 2 < 2 ^ (i - 1)) by (apply half_lt; lia).
      pose proof (T2 (i - 1) (j0 / 2) (j0 mod 2) ltac:(lia) Hj2 ltac:(apply N.mod_lt; lia)) as K.
      replace (i - 1 + 1) with i in K by lia.
      replace (2 * (j0 / 2) + j0 mod 2) with j0 in K by (rewrite <- N.div_mod; lia).
      cbn [hole] in K. rewrite neq_refl in K. destruct (spf (i - 1) (j0 / 2)); [auto|].
      destruct K; discriminate. }
  destruct Hn as [Hn Hp]. splits; auto.
  intros Hlt. destruct Hn as (_ & _ & Hs). split.
  - rewrite T4 by auto. rewrite Hs. auto.
  - intros c Hc. specialize (T2 i j0 c Hlt Hj Hc). rewrite Hs in T2. tauto.
Qed.

(** ** the hole is split: its left half is the new hole, its right half is free *)
Lemma T_split ord frf alf spf mgf i j0 : tinv ord frf alf spf mgf (Some (i, j0)) -> i < ord ->
  tinv ord (upd frf (i + 1) (2 * j0 + 1) true) alf (upd spf i j0 true) (upd mgf i j0 true) (Some (i + 1, 2 * j0)).
Proof.
  intros T Hi. destruct (hole_facts _ _ _ _ _ _ _ T) as ((Hf & Ha & Hs) & Hch & _).
  destruct (Hch Hi) as (Hm & Hc). destruct (Hc 0 ltac:(lia)) as (F0 & A0 & S0). destruct (Hc 1 ltac:(lia)) as (F1 & A1 & S1).
  rewrite N.add_0_r in *.
  destruct T as [T1 T2 T3 T4 T5]. cbn in T5. destruct T5 as [_ Hj0].
  constructor.
  - cbn [hole] in *. unfold upd, none3 in *. nsplit; try lia; subst; frew; auto.
  - intros l j c Hl Hj Hc'. specialize (T2 l j c Hl Hj Hc'). cbn [hole] in *. unfold upd, none3 in *.
    assert (Hcc : c = 0 \/ c = 1) by lia. destruct Hcc as [-> | ->]; rewrite ?N.add_0_r in *;
      nsplit; try lia; subst; frew; cbn; auto; try (exfalso; lia).
    all: try (destruct (spf l j); [auto|unone; try discriminate; auto]).
  - intros j Hj. unfold upd. nsplit; try lia. apply T3; auto.
  - intros l j Hl Hj. specialize (T4 l j Hl Hj). unfold busyF, upd in *. cbn [hole] in *.
    nsplit; try lia; subst; frew; cbn; auto; try (exfalso; lia).
    all: rewrite T4; frew; cbn; rewrite ?orb_false_r, ?orb_true_r; auto.
  - cbn. split; [lia|]. replace (2 * j0) with (2 * j0 + 0) by lia. apply child_valid; auto. lia.
Qed.

(** ** the hole becomes an allocated block *)
Lemma T_finish ord frf alf spf mgf i j0 : tinv ord frf alf spf mgf (Some (i, j0)) ->
  tinv ord frf (upd alf i j0 true) spf mgf None.
Proof.
  intros T. destruct (hole_facts _ _ _ _ _ _ _ T) as ((Hf & Ha & Hs) & _ & _).
  destruct T as [T1 T2 T3 T4 T5].
  constructor; auto.
  - cbn [hole] in *. unfold upd, none3 in *. nsplit; try lia; subst; frew; auto.
  - intros l j c Hl Hj Hc. specialize (T2 l j c Hl Hj Hc). cbn [hole] in *. unfold upd, none3 in *.
    nsplit; try lia; subst; frew; cbn; auto.
    all: try (destruct (spf l j); [auto|unone; try discriminate; splits; auto]).
  - intros l j Hl Hj. specialize (T4 l j Hl Hj). unfold busyF, upd in *. cbn [hole] in *.
    rewrite T4. nsplit; try lia; subst; frew; cbn; rewrite ?orb_false_r, ?orb_true_r; auto.
Qed.

(** ** an allocated block becomes the hole *)
Lemma T_unalloc ord frf alf spf mgf i j0 : tinv ord frf alf spf mgf None -> i <= ord -> j0 < 2 ^ i ->
  alf i j0 = true -> tinv ord frf (upd alf i j0 false) spf mgf (Some (i, j0)).
Proof.
  intros [T1 T2 T3 T4 _] Hi Hj0 Ha.
  constructor.
  - cbn [hole] in *. unfold upd, none3 in *. nsplit; try lia; subst; auto.
    rewrite Ha in T1. apply one3_al in T1. tauto.
  - intros l j c Hl Hj Hc. specialize (T2 l j c Hl Hj Hc). cbn [hole] in *. unfold upd, none3 in *.
    nsplit; try lia; subst; auto.
    all: try (rewrite Ha in T2; destruct (spf l j); [apply one3_al in T2; tauto|unone; discriminate]).
  - exact T3.
  - intros l j Hl Hj. specialize (T4 l j Hl Hj). unfold busyF, upd in *. cbn [hole] in *.
    rewrite T4. nsplit; try lia; subst; frew; cbn; rewrite ?orb_false_r, ?orb_true_r; auto.
  - cbn. auto.
Qed.

(** ** freeing: the hole is the root *)
Lemma T_push_root ord frf alf spf mgf : tinv ord frf alf spf mgf (Some (0, 0)) ->
  tinv ord (upd frf 0 0 true) alf spf mgf None.
Proof.
  intros T. destruct (hole_facts _ _ _ _ _ _ _ T) as ((Hf & Ha & Hs) & _ & _).
  destruct T as [T1 T2 T3 T4 T5].
  constructor.
  - cbn [hole]. unfold upd. rewrite neq_refl, Ha, Hs. auto.
  - intros l j c Hl Hj Hc. specialize (T2 l j c Hl Hj Hc). cbn [hole] in *. unfold upd, none3 in *.
    nsplit; try lia; auto.
    all: try (destruct (spf l j); [auto|unone; try discriminate; splits; auto]).
  - exact T3.
  - intros l j Hl Hj. specialize (T4 l j Hl Hj). unfold busyF in *. cbn [hole] in *.
    rewrite T4. nsplit; try lia. auto.
  - exact I.
Qed.

(** ** freeing: the sibling is busy, the hole becomes a free block *)
Lemma T_push_child ord frf alf spf mgf l0 j0 c : tinv ord frf alf spf mgf (Some (l0 + 1, 2 * j0 + c)) ->
  l0 < ord -> j0 < 2 ^ l0 -> c < 2 -> mgf l0 j0 = false ->
  tinv ord (upd frf (l0 + 1) (2 * j0 + c) true) alf spf (upd mgf l0 j0 true) None.
Proof.
  intros T Hl0 Hj0 Hc Hm. destruct (hole_facts _ _ _ _ _ _ _ T) as ((Hf & Ha & Hs) & _ & Hp).
  assert (Hsp : spf l0 j0 = true).
  { specialize (Hp ltac:(lia)). replace (l0 + 1 - 1) with l0 in Hp by lia.
    replace ((2 * j0 + c) / 2) with j0 in Hp by lia. auto. }
  destruct T as [T1 T2 T3 T4 T5].
  constructor.
  - cbn [hole] in *. unfold upd, none3 in *. nsplit; try lia; auto.
  - intros l j c' Hl Hj Hc'. specialize (T2 l j c' Hl Hj Hc'). cbn [hole] in *. unfold upd, none3 in *.
    nsplit; try lia; subst; frew; cbn; auto.
    all: try (destruct (child_eq l j c' l0 j0 c) as (-> & -> & ->); auto; rewrite Hsp; frew; auto; fail).
    all: try (destruct (spf l j); [auto|unone; try discriminate; splits; auto]).
  - exact T3.
  - intros l j Hl Hj. specialize (T4 l j Hl Hj). unfold busyF, upd in *. cbn [hole] in *.
    assert (Hcc : c = 0 \/ c = 1) by lia.
    destruct Hcc as [-> | ->]; rewrite ?N.add_0_r in *; nsplit_all; try lia; subst.
    all: try (rewrite T4; frew; cbn; rewrite ?orb_false_r, ?orb_true_r; auto; fail).
    all: rewrite Hm in T4; rewrite Hsp, Ha, Hs in T4; cbn in T4; frew; cbn.
    + destruct (alf (l0 + 1) (2 * j0 + 1) || spf (l0 + 1) (2 * j0 + 1)); cbn in *; congruence.
    + destruct (alf (l0 + 1) (2 * j0) || spf (l0 + 1) (2 * j0)); cbn in *; congruence.
  - exact I.
Qed.

(** ** freeing: the sibling is free, both halves merge into their parent, which
    becomes the hole *)
Lemma T_merge_up ord frf alf spf mgf l0 j0 c : tinv ord frf alf spf mgf (Some (l0 + 1, 2 * j0 + c)) ->
  l0 < ord -> j0 < 2 ^ l0 -> c < 2 -> mgf l0 j0 = true ->
  frf (l0 + 1) (2 * j0 + (1 - c)) = true /\
  tinv ord (upd frf (l0 + 1) (2 * j0 + (1 - c)) false) alf (upd spf l0 j0 false) (upd mgf l0 j0 false)
       (Some (l0, j0)).
Proof.
  intros T Hl0 Hj0 Hc Hm. destruct (hole_facts _ _ _ _ _ _ _ T) as ((Hf & Ha & Hs) & _ & Hp).
  assert (Hsp : spf l0 j0 = true).
  { specialize (Hp ltac:(lia)). replace (l0 + 1 - 1) with l0 in Hp by lia.
    replace ((2 * j0 + c) / 2) with j0 in Hp by lia. auto. }
  destruct T as [T1 T2 T3 T4 T5].
  (* the sibling is a free block *)
  assert (Hsib : frf (l0 + 1) (2 * j0 + (1 - c)) = true /\ alf (l0 + 1) (2 * j0 + (1 - c)) = false /\
                 spf (l0 + 1) (2 * j0 + (1 - c)) = false).
  { pose proof (T4 l0 j0 Hl0 Hj0) as K. rewrite Hm, Hsp in K. unfold busyF in K. cbn [hole andb] in K.
    pose proof (T2 l0 j0 (1 - c) Hl0 Hj0 ltac:(lia)) as K2. rewrite Hsp in K2. cbn [hole] in K2.
    assert (Hcc : c = 0 \/ c = 1) by lia.
    destruct Hcc as [-> | ->]; cbn [N.sub] in *; rewrite ?N.add_0_r in *;
      change (1 - 0) with 1 in *; change (1 - 1) with 0 in *; rewrite ?N.add_0_r in *;
      nsplit_all; try lia; rewrite ?Ha, ?Hs in K; cbn in K.
    - destruct (alf (l0 + 1) (2 * j0 + 1)) eqn:EA, (spf (l0 + 1) (2 * j0 + 1)) eqn:ES; cbn in K; try discriminate.
      destruct (frf (l0 + 1) (2 * j0 + 1)); cbn in K2; try discriminate. auto.
    - destruct (alf (l0 + 1) (2 * j0)) eqn:EA, (spf (l0 + 1) (2 * j0)) eqn:ES; cbn in K; try discriminate.
      destruct (frf (l0 + 1) (2 * j0)); cbn in K2; try discriminate. auto. }
  destruct Hsib as (SF & SA & SS). split; auto.
  (* the parent: split, hence neither free nor allocated *)
  assert (Hpar : frf l0 j0 = false /\ alf l0 j0 = false).
  { destruct (N.eq_dec l0 0) as [->|Hne].
    - assert (j0 = 0) by (rewrite N.pow_0_r in Hj0; lia). subst. cbn [hole] in T1.
      replace (neq 0 0 (0 + 1) (2 * 0 + c)) with false in T1 by (symmetry; apply neq_false; lia).
      rewrite Hsp in T1. apply one3_sp in T1. auto.
    - assert (Hj2 : j0 / 2 < 2 ^ (l0 - 1)) by (apply half_lt; lia).
      pose proof (T2 (l0 - 1) (j0 / 2) (j0 mod 2) ltac:(lia) Hj2 ltac:(apply N.mod_lt; lia)) as K.
      replace (l0 - 1 + 1) with l0 in K by lia.
      replace (2 * (j0 / 2) + j0 mod 2) with j0 in K by (rewrite <- N.div_mod; lia).
      cbn [hole] in K. replace (neq l0 j0 (l0 + 1) (2 * j0 + c)) with false in K by (symmetry; apply neq_false; lia).
      destruct (spf (l0 - 1) (j0 / 2)).
      + rewrite Hsp in K. apply one3_sp in K. auto.
      + unone. congruence. }
  destruct Hpar as [PF PA].
  constructor.
  - cbn [hole] in *. unfold upd, none3 in *. nsplit_all; try lia; subst; frew; auto.
  - intros l j c' Hl Hj Hc'. specialize (T2 l j c' Hl Hj Hc'). cbn [hole] in *. unfold upd, none3 in *.
    assert (Hcc : c = 0 \/ c = 1) by lia.
    destruct Hcc as [-> | ->]; change (1 - 0) with 1 in *; change (1 - 1) with 0 in *; rewrite ?N.add_0_r in *;
      nsplit_all; try lia; subst; frew; cbn; auto.
    all: try (rewrite ?Hsp in T2; frew; unone; splits; auto; fail).
    all: try (destruct (spf l j) eqn:ESP; [auto|unone; try discriminate; try congruence; splits; auto]).
    all: try (frew; auto).
  - intros j Hj. unfold upd. nsplit; auto.
  - intros l j Hl Hj. specialize (T4 l j Hl Hj). unfold busyF, upd in *. cbn [hole] in *.
    assert (Hcc : c = 0 \/ c = 1) by lia.
    destruct Hcc as [-> | ->]; change (1 - 0) with 1 in *; change (1 - 1) with 0 in *; rewrite ?N.add_0_r in *;
      nsplit_all; try lia; subst; frew; cbn; auto.
    all: try (rewrite T4; frew; cbn; rewrite ?orb_false_r, ?orb_true_r; auto; fail).
  - cbn. split; [lia|auto].
Qed.

(** ** nodes that exist have split ancestors; free blocks, allocated blocks and
    the hole are never nested *)
Definition exists_node (frf alf spf : nfun) (h : option (N * N)) (l j : N) : bool :=
  frf l j || alf l j || spf l j || hole h l j.

Lemma exists_parent ord frf alf spf mgf h l j c : tinv ord frf alf spf mgf h ->
  l < ord -> j < 2 ^ l -> c < 2 -> exists_node frf alf spf h (l + 1) (2 * j + c) = true -> spf l j = true.
Proof.
  intros [_ T2 _ _ _] Hl Hj Hc He. specialize (T2 l j c Hl Hj Hc).
  destruct (spf l j); auto. destruct T2 as ((A & B & C) & D). unfold exists_node in He.
  rewrite A, B, C, D in He. discriminate.
Qed.

Lemma ancestor_split ord frf alf spf mgf h : tinv ord frf alf spf mgf h ->
  forall d l' j', (0 < d)%nat -> N.of_nat d <= l' -> l' <= ord -> j' < 2 ^ l' ->
  exists_node frf alf spf h l' j' = true ->
  spf (l' - N.of_nat d) (j' / 2 ^ N.of_nat d) = true.
Proof.
  intros T. induction d as [|d IH]; intros l' j' Hd Hdl Hl' Hj' He; [lia|].
  assert (Hpar : spf (l' - 1) (j' / 2) = true).
  { assert (Hj2 : j' / 2 < 2 ^ (l' - 1)) by (apply half_lt; lia).
    apply (exists_parent ord frf alf spf mgf h (l' - 1) (j' / 2) (j' mod 2) T ltac:(lia) Hj2 ltac:(apply N.mod_lt; lia)).
    replace (l' - 1 + 1) with l' by lia.
    replace (2 * (j' / 2) + j' mod 2) with j' by (rewrite <- N.div_mod; lia). auto. }
  destruct d as [|d].
  - cbn. change (N.of_nat 1) with 1. rewrite N.pow_1_r. auto.
  - assert (Hj2 : j' / 2 < 2 ^ (l' - 1)) by (apply half_lt; lia).
    specialize (IH (l' - 1) (j' / 2) ltac:(lia) ltac:(lia) ltac:(lia) Hj2).
    replace (l' - N.of_nat (S (S d))) with (l' - 1 - N.of_nat (S d)) by lia.
    replace (j' / 2 ^ N.of_nat (S (S d))) with (j' / 2 / 2 ^ N.of_nat (S d)).
    + apply IH. unfold exists_node. rewrite Hpar. rewrite orb_true_r. auto.
    + rewrite N.div_div by (try lia; pose proof (pow2_pos (N.of_nat (S d))); lia).
      f_equal. replace (N.of_nat (S (S d))) with (1 + N.of_nat (S d)) by lia.
      rewrite N.pow_add_r, N.pow_1_r. auto.
Qed.

(** a free block or the hole strictly above or below an allocated block is impossible *)
Lemma not_nested ord frf alf spf mgf h l j l' j' : tinv ord frf alf spf mgf h ->
  l <= l' -> l' <= ord -> j' < 2 ^ l' -> j = j' / 2 ^ (l' - l) ->
  (frf l j = true \/ hole h l j = true) -> alf l' j' = true -> False.
Proof.
  intros T Hll Hl' Hj' Hj Hfh Ha.
  assert (Hjv : j < 2 ^ l).
  { subst j. apply N.div_lt_upper_bound; [pose proof (pow2_pos (l' - l)); lia|].
    rewrite <- N.pow_add_r. replace (l' - l + l) with l' by lia. auto. }
  (* the status of (l, j) excludes being split or allocated *)
  assert (Hst : spf l j = false /\ (l = l' -> alf l j = false)).
  { destruct T as [T1 T2 _ _ _].
    destruct (N.eq_dec l 0) as [->|Hne].
    - assert (j = 0) by (rewrite N.pow_0_r in Hjv; lia). subst j. rewrite H in *.
      destruct (hole h 0 0) eqn:Eh.
      + destruct T1 as (A & B & C). auto.
      + destruct Hfh as [Hf|Hf]; [|congruence]. rewrite Hf in T1. apply one3_fr in T1. destruct T1; auto.
    - assert (Hj2 : j / 2 < 2 ^ (l - 1)) by (apply half_lt; lia).
      pose proof (T2 (l - 1) (j / 2) (j mod 2) ltac:(lia) Hj2 ltac:(apply N.mod_lt; lia)) as K.
      replace (l - 1 + 1) with l in K by lia.
      replace (2 * (j / 2) + j mod 2) with j in K by (rewrite <- N.div_mod; lia).
      destruct (spf (l - 1) (j / 2)).
      + destruct (hole h l j) eqn:Eh.
        * destruct K as (A & B & C). auto.
        * destruct Hfh as [Hf|Hf]; [|congruence]. rewrite Hf in K. apply one3_fr in K. destruct K; auto.
      + destruct K as ((A & B & C) & D). destruct Hfh; congruence. }
  destruct Hst as [Hs Hal].
  destruct (N.eq_dec l l') as [->|Hne].
  - rewrite N.sub_diag, N.pow_0_r, N.div_1_r in Hj. subst j. rewrite Hal in Ha; auto. discriminate.
  - pose proof (ancestor_split ord frf alf spf mgf h T (N.to_nat (l' - l)) l' j' ltac:(lia) ltac:(lia) Hl' Hj') as K.
    rewrite N2Nat.id in K. replace (l' - (l' - l)) with l in K by lia. rewrite <- Hj in K.
    rewrite K in Hs; [discriminate|]. unfold exists_node. rewrite Ha. rewrite orb_true_r. auto.
Qed.

Lemma not_nested' ord frf alf spf mgf h l j l' j' : tinv ord frf alf spf mgf h ->
  l <= l' -> l' <= ord -> j' < 2 ^ l' -> j = j' / 2 ^ (l' - l) -> l <> l' ->
  alf l j = true -> (frf l' j' = true \/ hole h l' j' = true) -> False.
Proof.
  intros T Hll Hl' Hj' Hj Hne Ha Hfh.
  assert (Hjv : j < 2 ^ l).
  { subst j. apply N.div_lt_upper_bound; [pose proof (pow2_pos (l' - l)); lia|].
    rewrite <- N.pow_add_r. replace (l' - l + l) with l' by lia. auto. }
  pose proof (ancestor_split ord frf alf spf mgf h T (N.to_nat (l' - l)) l' j' ltac:(lia) ltac:(lia) Hl' Hj') as K.
  rewrite N2Nat.id in K. replace (l' - (l' - l)) with l in K by lia. rewrite <- Hj in K.
  assert (Hs : spf l j = true).
  { apply K. unfold exists_node. destruct Hfh as [-> | ->]; rewrite ?orb_true_r; auto. }
  (* an allocated node is not split *)
  destruct T as [T1 T2 _ _ _].
  destruct (N.eq_dec l 0) as [->|Hne0].
  - assert (j = 0) by (rewrite N.pow_0_r in Hjv; lia). subst j. rewrite H in *.
    destruct (hole h 0 0); [destruct T1 as (A & B & C); congruence|].
    rewrite Ha in T1. apply one3_al in T1. destruct T1; congruence.
  - assert (Hj2 : j / 2 < 2 ^ (l - 1)) by (apply half_lt; lia).
    pose proof (T2 (l - 1) (j / 2) (j mod 2) ltac:(lia) Hj2 ltac:(apply N.mod_lt; lia)) as K2.
    replace (l - 1 + 1) with l in K2 by lia.
    replace (2 * (j / 2) + j mod 2) with j in K2 by (rewrite <- N.div_mod; lia).
    destruct (spf (l - 1) (j / 2)).
    + destruct (hole h l j); [destruct K2 as (A & B & C); congruence|].
      rewrite Ha in K2. apply one3_al in K2. destruct K2; congruence.
    + destruct K2 as ((A & B & C) & D). congruence.
Qed.

(** * The concrete state *)
Record binv (b : buddy) (ord : N) (h : option (N * N)) : Prop := {
  bv_wfg : wfg b ord;
  bv_lists : forall l, l <= ord -> NoDup (get_level b l) /\
             forall a, In a (get_level b l) -> exists j, j < 2 ^ l /\ a = addr b ord l j;
  bv_blocks : NoDup (map fst (b_blocks b)) /\ NoDup (map snd (b_blocks b)) /\
              forall a l id, In (a, l, id) (b_blocks b) ->
                l <= ord /\ id < b_next b /\ exists j, j < 2 ^ l /\ a = addr b ord l j;
  bv_tree : tinv ord (fr b ord) (al b ord) (sp b ord) (mg b) h
}.

Lemma fr_set_level b ord l0 x l j : wfg b ord -> l0 <= ord -> l <= ord ->
  fr (set_level b l0 x) ord l j = if l =? l0 then existsb (N.eqb (addr b ord l j)) x else fr b ord l j.
Proof.
  intros Hw H0 Hl. unfold fr. change (addr (set_level b l0 x) ord l j) with (addr b ord l j).
  destruct (l =? l0) eqn:E.
  - apply N.eqb_eq in E. subst. rewrite (get_set_same b ord l0 x Hw H0). auto.
  - apply N.eqb_neq in E. rewrite get_set_other by auto. auto.
Qed.

Lemma index_of_block_up b ord l l' j' : wfg b ord -> l <= l' -> l' <= ord ->
  index_of_block b (addr b ord l' j') l = idx l (j' / 2 ^ (l' - l)).
Proof. intros. unfold index_of_block, idx. rewrite (index_up b ord l l' j'); auto. Qed.

(** ** taking a block from the front of its free list *)
Lemma C_take b ord i block rest : binv b ord None -> i <= ord -> get_level b i = block :: rest ->
  exists j0, j0 < 2 ^ i /\ block = addr b ord i j0 /\
    let b1 := set_level b i rest in
    let b2 := if 0 <? i then b1 <| b_merge := toggle (index_of_block b1 block (i - 1)) (b_merge b1) |> else b1 in
    binv b2 ord (Some (i, j0)) /\ b_base b2 = b_base b /\ b_next b2 = b_next b /\
    b_track b2 = b_track b /\ b_trackers b2 = b_trackers b /\ b_blocks b2 = b_blocks b.
Proof.
  intros [Hw Hl Hb Ht] Hi Hg. destruct (Hl i Hi) as [Hnd Hel].
  destruct (Hel block) as (j0 & Hj0 & Hblk); [rewrite Hg; cbn; auto|]. exists j0. splits; auto.
  cbv zeta. set (b1 := set_level b i rest).
  assert (Hw1 : wfg b1 ord) by (apply wfg_set_level; auto).
  rewrite Hg in Hnd. inversion Hnd as [|? ? Hnin Hnd']; subst.
  assert (Hfr1 : forall l j, l <= ord -> j < 2 ^ l -> fr b1 ord l j = upd (fr b ord) i j0 false l j).
  { intros l j Hll Hj. unfold b1. rewrite fr_set_level by auto. unfold upd, neq.
    destruct (l =? i) eqn:E; cbn [andb]; auto. apply N.eqb_eq in E. subst l.
    destruct (j =? j0) eqn:E2.
    - apply N.eqb_eq in E2. subst. apply not_true_iff_false. rewrite existsb_eqb_In. auto.
    - apply N.eqb_neq in E2. unfold fr. rewrite Hg. cbn [existsb].
      replace (addr b ord i j =? addr b ord i j0) with false; auto.
      symmetry. apply N.eqb_neq. intros He. apply addr_inj in He. auto. }
  assert (Hfr0 : fr b ord i j0 = true) by (apply fr_In; rewrite Hg; cbn; auto).
  assert (Hlists : forall b', (forall l, get_level b' l = get_level b1 l) -> b_base b' = b_base b ->
            forall l, l <= ord -> NoDup (get_level b' l) /\
              forall a, In a (get_level b' l) -> exists j, j < 2 ^ l /\ a = addr b' ord l j).
  { intros b' Hgl Hbase l Hll. rewrite Hgl. unfold addr. rewrite Hbase. fold (addr b ord).
    unfold b1. destruct (N.eq_dec l i) as [->|Hne].
    - rewrite (get_set_same b ord i rest Hw Hi). split; auto.
      intros a Ha. apply Hel. rewrite Hg. cbn. auto.
    - rewrite get_set_other by auto. apply Hl; auto. }
  destruct (0 <? i) eqn:Ei.
  - apply N.ltb_lt in Ei.
    set (b2 := b1 <| b_merge := _ |>).
    assert (Hidx : index_of_block b1 (addr b ord i j0) (i - 1) = idx (i - 1) (j0 / 2)).
    { change (addr b ord i j0) with (addr b1 ord i j0).
      rewrite (index_of_block_up b1 ord (i - 1) i j0) by (auto; lia).
      replace (i - (i - 1)) with 1 by lia. rewrite N.pow_1_r. auto. }
    assert (Hj2 : j0 / 2 < 2 ^ (i - 1)) by (apply half_lt; lia).
    splits; auto.
    constructor; [auto | apply Hlists; auto | exact Hb | ].
    eapply (tinv_ext ord (upd (fr b ord) (i - 1 + 1) (2 * (j0 / 2) + j0 mod 2) false) (al b ord) (sp b ord)
               (upd (mg b) (i - 1) (j0 / 2) (negb (mg b (i - 1) (j0 / 2))))).
    + intros l j Hll Hj. replace (i - 1 + 1) with i by lia.
        replace (2 * (j0 / 2) + j0 mod 2) with j0 by (rewrite <- N.div_mod; lia).
        splits; auto.
      * change (fr b2 ord l j) with (fr b1 ord l j). apply Hfr1; auto.
      * unfold b2. rewrite Hidx. change (b_merge b1) with (b_merge b).
           change (mg (b1 <| b_merge := toggle (idx (i - 1) (j0 / 2)) (b_merge b) |>) l j)
             with (mg (b <| b_merge := toggle (idx (i - 1) (j0 / 2)) (b_merge b) |>) l j).
           rewrite mg_toggle by auto. unfold upd. destruct (neq l j (i - 1) (j0 / 2)) eqn:E; auto.
           apply neq_true in E. destruct E; subst. auto.
    + replace (Some (i, j0)) with (Some (i - 1 + 1, 2 * (j0 / 2) + j0 mod 2)).
      * apply T_take_child; auto; try lia; try (apply N.mod_lt; lia).
           replace (i - 1 + 1) with i by lia.
           replace (2 * (j0 / 2) + j0 mod 2) with j0 by (rewrite <- N.div_mod; lia). auto.
      * f_equal. f_equal; [lia|rewrite <- N.div_mod; lia].
  - apply N.ltb_ge in Ei. assert (i = 0) by lia. subst i.
    assert (j0 = 0) by (rewrite N.pow_0_r in Hj0; lia). subst j0.
    splits; auto. constructor; [auto | apply Hlists; auto | exact Hb | ].
    eapply (tinv_ext ord (upd (fr b ord) 0 0 false) (al b ord) (sp b ord) (mg b)).
    + intros l j Hll Hj. splits; auto.
    + apply T_take_root; auto.
Qed.

Lemma existsb_app_single (f : N -> bool) l x : existsb f (l ++ [x]) = existsb f l || f x.
Proof. rewrite existsb_app. cbn. rewrite orb_false_r. auto. Qed.

Lemma NoDup_app_single {A} (l : list A) x : NoDup l -> ~ In x l -> NoDup (l ++ [x]).
Proof.
  induction l as [|a l IH]; cbn; intros Hn Hx; [constructor; auto; constructor|].
  inversion Hn; subst. constructor.
  - rewrite in_app_iff. cbn. intros [H|[H|[]]]; [auto|subst; auto].
  - apply IH; auto.
Qed.

(** ** one step of the splitting loop *)
Lemma C_split_step b ord i j0 : binv b ord (Some (i, j0)) -> i < ord ->
  let block := addr b ord i j0 in
  let b1 := b <| b_split := toggle (index_of_block b block i) (b_split b) |>
              <| b_merge := toggle (index_of_block b block i) (b_merge b) |> in
  let b2 := push_level b1 (i + 1) (buddy_of b1 block (i + 1)) in
  binv b2 ord (Some (i + 1, 2 * j0)) /\ b_base b2 = b_base b /\ b_next b2 = b_next b /\
  b_track b2 = b_track b /\ b_trackers b2 = b_trackers b /\ b_blocks b2 = b_blocks b.
Proof.
  intros [Hw Hl Hb Ht] Hi. cbv zeta.
  pose proof (t_hole _ _ _ _ _ _ Ht) as Hh. cbn in Hh. destruct Hh as [_ Hj0].
  destruct (hole_facts _ _ _ _ _ _ _ Ht) as ((Hf & Ha & Hs) & Hch & _).
  destruct (Hch Hi) as (Hm & Hc). destruct (Hc 1 ltac:(lia)) as (F1 & _).
  assert (Hidx : index_of_block b (addr b ord i j0) i = idx i j0).
  { unfold index_of_block, idx. rewrite (index_same b ord i j0) by (auto; lia). auto. }
  rewrite Hidx.
  set (b1 := b <| b_split := toggle (idx i j0) (b_split b) |> <| b_merge := toggle (idx i j0) (b_merge b) |>).
  assert (Hw1 : wfg b1 ord) by exact Hw.
  assert (Hbud : buddy_of b1 (addr b ord i j0) (i + 1) = addr b ord (i + 1) (2 * j0 + 1)).
  { rewrite (addr_left b ord i j0 Hi). change (addr b ord (i + 1) (2 * j0)) with (addr b1 ord (i + 1) (2 * j0)).
    unfold buddy_of. rewrite (index_same b1 ord (i + 1) (2 * j0)) by (auto; lia).
    replace (N.even (2 * j0)) with true by (symmetry; apply N.even_spec; exists j0; lia).
    rewrite (size_of_level_eq b1 ord (i + 1) Hw1) by lia. unfold addr. change (b_base b1) with (b_base b). lia. }
  rewrite Hbud.
  set (new := addr b ord (i + 1) (2 * j0 + 1)).
  set (b2 := push_level b1 (i + 1) new).
  assert (Hw2 : wfg b2 ord) by (apply wfg_set_level; auto).
  assert (Hnew : ~ In new (get_level b (i + 1))) by (apply fr_In in F1 || (intros Hin; apply fr_In in Hin; congruence)).
  splits; auto.
  constructor; auto.
  - intros l Hll. change (addr b2 ord l) with (addr b ord l). unfold b2, push_level.
    destruct (N.eq_dec l (i + 1)) as [->|Hne].
    + rewrite (get_set_same b1 ord (i + 1) _ Hw1) by lia. change (get_level b1 (i + 1)) with (get_level b (i + 1)).
      destruct (Hl (i + 1) ltac:(lia)) as [Hnd Hel]. split.
      * apply NoDup_app_single; auto.
      * intros a Ha'. apply in_app_iff in Ha'. destruct Ha' as [Ha'|[<-|[]]]; auto.
        exists (2 * j0 + 1). split; auto. apply child_valid; auto. lia.
    + rewrite get_set_other by auto. change (get_level b1 l) with (get_level b l). apply Hl; auto.
  - eapply (tinv_ext ord (upd (fr b ord) (i + 1) (2 * j0 + 1) true) (al b ord) (upd (sp b ord) i j0 true) (upd (mg b) i j0 true)).
    + intros l j Hll Hj. splits; auto.
      * unfold b2, push_level. rewrite fr_set_level by (auto; lia). change (fr b1 ord l j) with (fr b ord l j).
        change (addr b1 ord l j) with (addr b ord l j). change (get_level b1 (i + 1)) with (get_level b (i + 1)).
        unfold upd, neq. destruct (l =? i + 1) eqn:E; cbn [andb]; auto.
        apply N.eqb_eq in E. subst l. rewrite existsb_app_single. fold (fr b ord (i + 1) j).
        destruct (j =? 2 * j0 + 1) eqn:E2.
        -- apply N.eqb_eq in E2. subst. unfold new. rewrite N.eqb_refl. apply orb_true_r.
        -- apply N.eqb_neq in E2. replace (addr b ord (i + 1) j =? new) with false; [apply orb_false_r|].
           symmetry. apply N.eqb_neq. intros He. apply addr_inj in He. auto.
      * change (sp b2 ord l j) with (sp (b <| b_split := toggle (idx i j0) (b_split b) |>) ord l j).
        rewrite sp_toggle by auto. unfold upd. destruct (neq l j i j0) eqn:E; auto.
        apply neq_true in E. destruct E; subst. rewrite Hs. auto.
      * change (mg b2 l j) with (mg (b <| b_merge := toggle (idx i j0) (b_merge b) |>) l j).
        rewrite mg_toggle by auto. unfold upd. destruct (neq l j i j0) eqn:E; auto.
        apply neq_true in E. destruct E; subst. rewrite Hm. auto.
    + apply T_split; auto.
Qed.

(** ** the splitting loop *)
Lemma C_split_down ord fuel : forall b i j0 level, binv b ord (Some (i, j0)) -> i <= level -> level <= ord ->
  (N.to_nat (level - i) <= fuel)%nat ->
  let b' := split_down fuel b (addr b ord i j0) i level in
  binv b' ord (Some (level, j0 * 2 ^ (level - i))) /\ b_base b' = b_base b /\ b_next b' = b_next b /\
  b_track b' = b_track b /\ b_trackers b' = b_trackers b /\ b_blocks b' = b_blocks b.
Proof.
  induction fuel as [|fuel IH]; intros b i j0 level Hb Hil Hlo Hf; cbv zeta.
  - assert (level = i) by lia. subst. cbn. rewrite N.sub_diag, N.pow_0_r, N.mul_1_r. splits; auto.
  - cbn [split_down]. destruct (i <? level) eqn:E.
    + apply N.ltb_lt in E.
      destruct (C_split_step b ord i j0 Hb ltac:(lia)) as (Hb2 & F1 & F2 & F3 & F4 & F5).
      cbv zeta in *.
      set (b2 := push_level _ _ _) in *.
      assert (Hadr : addr b ord i j0 = addr b2 ord (i + 1) (2 * j0)).
      { rewrite (addr_left b ord i j0) by lia. unfold addr. rewrite F1. auto. }
      rewrite Hadr.
      destruct (IH b2 (i + 1) (2 * j0) level Hb2 ltac:(lia) Hlo ltac:(lia)) as (G0 & G1 & G2 & G3 & G4 & G5).
      cbv zeta in G0.
      replace (j0 * 2 ^ (level - i)) with (2 * j0 * 2 ^ (level - (i + 1))).
      * splits; auto; congruence.
      * replace (level - i) with (1 + (level - (i + 1))) by lia. rewrite N.pow_add_r, N.pow_1_r. lia.
    + apply N.ltb_ge in E. assert (level = i) by lia. subst. rewrite N.sub_diag, N.pow_0_r, N.mul_1_r. splits; auto.
Qed.

(** ** order and level of a request *)
Lemma order_from_spec fuel : forall o x, let r := order_from fuel o x in
  o <= r /\ (x <= 2 ^ r \/ r = o + N.of_nat fuel).
Proof.
  induction fuel as [|fuel IH]; intros o x; cbn [order_from]; cbv zeta.
  - split; [lia|right; lia].
  - destruct (2 ^ o <? x) eqn:E.
    + destruct (IH (o + 1) x) as [H1 H2]. cbv zeta in *. split; [lia|]. destruct H2; [left; auto|right; lia].
    + apply N.ltb_ge in E. split; [lia|left; auto].
Qed.

Lemma find_level_spec b fuel : forall i r, find_level b fuel i = Some r -> r <= i /\ get_level b r <> [].
Proof.
  induction fuel as [|fuel IH]; intros i r H; cbn [find_level] in H.
  - destruct (get_level b i) eqn:E; [discriminate|]. inversion H; subst. split; [lia|congruence].
  - destruct (get_level b i) eqn:E.
    + destruct (i =? 0); [discriminate|]. apply IH in H. destruct H. split; [lia|auto].
    + inversion H; subst. split; [lia|congruence].
Qed.

(** * Freeing a block *)
(** ** levelOfBlock finds the level of the hole *)
Lemma level_of_block_spec b ord L j fuel : binv b ord (Some (L, j)) ->
  forall n, L <= n -> n <= ord -> (N.to_nat n <= fuel)%nat ->
  level_of_block fuel b (addr b ord L j) n = L.
Proof.
  intros [Hw _ _ Ht]. pose proof (t_hole _ _ _ _ _ _ Ht) as Hh. cbn in Hh. destruct Hh as [HL Hj].
  destruct (hole_facts _ _ _ _ _ _ _ Ht) as ((_ & _ & Hs) & _ & Hp).
  induction fuel as [|fuel IH]; intros n HLn Hn Hf.
  - cbn. lia.
  - cbn [level_of_block]. destruct (n =? 0) eqn:E0; [apply N.eqb_eq in E0; lia|]. apply N.eqb_neq in E0.
    destruct (N.eq_dec n L) as [->|Hne].
    + (* the parent of the hole is split *)
      rewrite (index_of_block_up b ord (L - 1) L j) by (auto; lia).
      replace (L - (L - 1)) with 1 by lia. rewrite N.pow_1_r.
      specialize (Hp ltac:(lia)). unfold sp in Hp. apply andb_true_iff in Hp. destruct Hp as [_ Hp].
      rewrite Hp. auto.
    + (* below the hole nothing is split *)
      assert (Hbit : bit (index_of_block b (addr b ord L j) (n - 1)) (b_split b) = false).
      { unfold index_of_block. rewrite (index_down b ord (n - 1) L j) by (auto; lia). fold (idx (n - 1) (j * 2 ^ (n - 1 - L))).
        assert (Hv : j * 2 ^ (n - 1 - L) < 2 ^ (n - 1)).
        { rewrite (pow2_split (n - 1) L) by lia. pose proof (pow2_pos (n - 1 - L)). nia. }
        assert (Hsp : sp b ord (n - 1) (j * 2 ^ (n - 1 - L)) = false).
        { destruct (N.eq_dec (n - 1) L) as [He|Hne2].
          - rewrite He, N.sub_diag, N.pow_0_r, N.mul_1_r. auto.
          - (* a proper descendant of the hole does not exist *)
            destruct (sp b ord (n - 1) (j * 2 ^ (n - 1 - L))) eqn:Es; auto. exfalso.
            pose proof (ancestor_split ord _ _ _ _ _ Ht (N.to_nat (n - 1 - L)) (n - 1) (j * 2 ^ (n - 1 - L))
                          ltac:(lia) ltac:(lia) ltac:(lia) Hv) as K.
            rewrite N2Nat.id in K. replace (n - 1 - (n - 1 - L)) with L in K by lia.
            rewrite N.div_mul in K by (pose proof (pow2_pos (n - 1 - L)); lia).
            rewrite Hs in K. discriminate K. unfold exists_node. rewrite Es. rewrite orb_true_r. auto. }
        unfold sp in Hsp. replace (n - 1 <? ord) with true in Hsp by (symmetry; apply N.ltb_lt; lia). auto. }
      rewrite Hbit. apply IH; lia.
Qed.

Lemma remove_first_NoDup x l : NoDup l -> NoDup (remove_first x l) /\ (forall y, In y (remove_first x l) <-> In y l /\ y <> x).
Proof.
  induction l as [|a l IH]; cbn; intros Hn; [split; [constructor|intros; tauto]|].
  inversion Hn; subst. destruct (a =? x) eqn:E.
  - apply N.eqb_eq in E. subst. split; auto. intros y. split.
    + intros Hy. split; auto. intros ->. auto.
    + intros [[->|Hy] Hne]; [congruence|auto].
  - apply N.eqb_neq in E. destruct (IH H2) as [I1 I2]. split.
    + constructor; auto. rewrite I2. tauto.
    + intros y. cbn. rewrite I2. split; [intros [->|[? ?]]; auto|intros [[->|?] ?]; auto].
Qed.

Lemma existsb_remove_first x l a : NoDup l ->
  existsb (N.eqb a) (remove_first x l) = existsb (N.eqb a) l && negb (a =? x).
Proof.
  intros Hn. destruct (remove_first_NoDup x l Hn) as [_ H].
  destruct (existsb (N.eqb a) (remove_first x l)) eqn:E.
  - apply existsb_eqb_In in E. apply H in E. destruct E as [E1 E2].
    apply existsb_eqb_In in E1. rewrite E1. cbn. symmetry. apply negb_true_iff. apply N.eqb_neq. auto.
  - symmetry. apply andb_false_iff. destruct (a =? x) eqn:Ex; [right; auto|left].
    apply N.eqb_neq in Ex. apply not_true_iff_false. intros Hin. apply existsb_eqb_In in Hin.
    assert (In a (remove_first x l)) by (apply H; auto). apply existsb_eqb_In in H0. congruence.
Qed.

(** ** the merging loop *)
Lemma C_free_block ord fuel : forall b L j, binv b ord (Some (L, j)) -> (N.to_nat L < fuel)%nat ->
  let b' := free_block fuel b (addr b ord L j) L in
  binv b' ord None /\ b_base b' = b_base b /\ b_next b' = b_next b /\
  b_track b' = b_track b /\ b_trackers b' = b_trackers b /\ b_blocks b' = b_blocks b.
Proof.
  induction fuel as [|fuel IH]; intros b L j Hb Hf; [lia|]. cbv zeta. cbn [free_block].
  pose proof Hb as [Hw Hl Hbl Ht].
  pose proof (t_hole _ _ _ _ _ _ Ht) as Hh. cbn in Hh. destruct Hh as [HL Hj].
  destruct (hole_facts _ _ _ _ _ _ _ Ht) as ((Hfr & Hal & Hsp0) & _ & Hp).
  destruct (L =? 0) eqn:E0.
  - (* the root *)
    apply N.eqb_eq in E0. subst L. assert (j = 0) by (rewrite N.pow_0_r in Hj; lia). subst j.
    set (p := addr b ord 0 0). set (b' := push_level b 0 p).
    assert (Hnew : ~ In p (get_level b 0)) by (intros Hin; apply fr_In in Hin; congruence).
    splits; auto. constructor.
    + apply wfg_set_level; auto.
    + intros l Hll. change (addr b' ord l) with (addr b ord l). unfold b', push_level.
      destruct (N.eq_dec l 0) as [->|Hne].
      * rewrite (get_set_same b ord 0 _ Hw) by lia. destruct (Hl 0 ltac:(lia)) as [Hnd Hel]. split.
        -- apply NoDup_app_single; auto.
        -- intros a Ha. apply in_app_iff in Ha. destruct Ha as [Ha|[<-|[]]]; auto. exists 0. split; [apply pow2_pos|reflexivity].
      * rewrite get_set_other by auto. apply Hl; auto.
    + exact Hbl.
    + eapply (tinv_ext ord (upd (fr b ord) 0 0 true) (al b ord) (sp b ord) (mg b)).
      * intros l j Hll Hjj. splits; auto.
        unfold b', push_level. rewrite fr_set_level by (auto; lia). unfold upd, neq.
        destruct (l =? 0) eqn:E; cbn [andb]; auto. apply N.eqb_eq in E. subst l.
        rewrite existsb_app_single. fold (fr b ord 0 j).
        assert (j = 0) by (rewrite N.pow_0_r in Hjj; lia). subst j. rewrite N.eqb_refl. unfold p. rewrite N.eqb_refl. apply orb_true_r.
      * apply T_push_root; auto.
  - (* a child of (l0, j0) on side c *)
    apply N.eqb_neq in E0.
    set (l0 := L - 1). set (j0 := j / 2). set (c := j mod 2).
    assert (HLl : L = l0 + 1) by (unfold l0; lia).
    assert (Hjc : j = 2 * j0 + c) by (unfold j0, c; rewrite <- N.div_mod; lia).
    assert (Hc : c < 2) by (apply N.mod_lt; lia).
    assert (Hj0 : j0 < 2 ^ l0) by (apply half_lt; lia).
    assert (Hl0 : l0 < ord) by lia.
    assert (Hsp : sp b ord l0 j0 = true) by (apply Hp; lia).
    assert (Hidx : index_of_block b (addr b ord L j) l0 = idx l0 j0).
    { unfold l0. rewrite (index_of_block_up b ord (L - 1) L j) by (auto; lia).
      replace (L - (L - 1)) with 1 by lia. rewrite N.pow_1_r. auto. }
    rewrite Hidx.
    set (b1 := b <| b_merge := toggle (idx l0 j0) (b_merge b) |>).
    assert (Hmg1 : bit (idx l0 j0) (b_merge b1) = negb (mg b l0 j0)).
    { unfold b1. rewrite merge_upd. apply bit_toggle_same. }
    rewrite Hmg1, negb_involutive.
    assert (Hw1 : wfg b1 ord) by exact Hw.
    destruct (mg b l0 j0) eqn:Em.
    + (* the sibling is free: merge *)
      rewrite HLl, Hjc in Ht.
      destruct (T_merge_up _ _ _ _ _ _ _ _ Ht Hl0 Hj0 Hc Em) as [Hsib Tm].
      set (b2 := b1 <| b_split := toggle (idx l0 j0) (b_split b1) |>).
      assert (Hw2 : wfg b2 ord) by exact Hw.
      set (sib := 2 * j0 + (1 - c)).
      assert (Hbud : buddy_of b2 (addr b ord L j) L = addr b ord L sib).
      { change (addr b ord L j) with (addr b2 ord L j). unfold buddy_of.
        rewrite (index_same b2 ord L j) by (auto; lia). rewrite (size_of_level_eq b2 ord L Hw2) by lia.
        unfold addr, sib. change (b_base b2) with (b_base b).
        assert (Hcc : c = 0 \/ c = 1) by lia. destruct Hcc as [Hc0|Hc1].
        - replace (N.even j) with true by (symmetry; apply N.even_spec; exists j0; lia).
          rewrite Hc0 in *. change (1 - 0) with 1. lia.
        - replace (N.even j) with false.
          + rewrite Hc1 in *. change (1 - 1) with 0. pose proof (szl_pos ord L). nia.
          + symmetry. rewrite <- N.negb_odd. apply negb_false_iff. apply N.odd_spec. exists j0. lia. }
      rewrite Hbud.
      set (b3 := set_level b2 L (remove_first (addr b ord L sib) (get_level b2 L))).
      assert (Hp' : (if addr b ord L sib <? addr b ord L j then addr b ord L sib else addr b ord L j) = addr b3 ord l0 j0).
      { change (addr b3 ord l0 j0) with (addr b ord l0 j0). rewrite (addr_left b ord l0 j0 Hl0). rewrite <- HLl.
        unfold addr, sib. pose proof (szl_pos ord L).
        assert (Hcc : c = 0 \/ c = 1) by lia. destruct Hcc as [Hc0|Hc1].
        - rewrite Hc0 in *. change (1 - 0) with 1.
          replace (b_base b + (2 * j0 + 1) * szl ord L <? b_base b + j * szl ord L) with false
            by (symmetry; apply N.ltb_ge; nia). f_equal. nia.
        - rewrite Hc1 in *. change (1 - 1) with 0.
          replace (b_base b + (2 * j0 + 0) * szl ord L <? b_base b + j * szl ord L) with true
            by (symmetry; apply N.ltb_lt; nia). f_equal. nia. }
      rewrite Hp'.
      assert (Hb3 : binv b3 ord (Some (l0, j0))).
      { destruct (Hl L HL) as [Hnd Hel]. constructor.
        - apply wfg_set_level; auto.
        - intros l Hll. change (addr b3 ord l) with (addr b ord l). unfold b3.
          destruct (N.eq_dec l L) as [->|Hne].
          + rewrite (get_set_same b2 ord L _ Hw2) by lia. change (get_level b2 L) with (get_level b L).
            destruct (remove_first_NoDup (addr b ord L sib) _ Hnd) as [R1 R2]. split; auto.
            intros a Ha. apply R2 in Ha. apply Hel. tauto.
          + rewrite get_set_other by auto. change (get_level b2 l) with (get_level b l). apply Hl; auto.
        - exact Hbl.
        - eapply (tinv_ext ord (upd (fr b ord) (l0 + 1) (2 * j0 + (1 - c)) false) (al b ord)
                    (upd (sp b ord) l0 j0 false) (upd (mg b) l0 j0 false)); [|exact Tm].
          intros l j' Hll Hj'. splits; auto.
          + unfold b3. rewrite fr_set_level by (auto; lia). change (fr b2 ord l j') with (fr b ord l j').
            change (addr b2 ord l j') with (addr b ord l j'). change (get_level b2 L) with (get_level b L).
            unfold upd, neq. rewrite <- HLl. destruct (l =? L) eqn:E; cbn [andb]; auto.
            apply N.eqb_eq in E. subst l. rewrite existsb_remove_first by auto. fold (fr b ord L j').
            fold sib. destruct (j' =? sib) eqn:E2.
            * apply N.eqb_eq in E2. rewrite E2. rewrite N.eqb_refl. apply andb_false_r.
            * apply N.eqb_neq in E2. replace (addr b ord L j' =? addr b ord L sib) with false; [apply andb_true_r|].
              symmetry. apply N.eqb_neq. intros He. apply addr_inj in He. auto.
          + change (sp b3 ord l j') with (sp (b <| b_split := toggle (idx l0 j0) (b_split b) |>) ord l j').
            rewrite sp_toggle by auto. unfold upd. destruct (neq l j' l0 j0) eqn:E; auto.
            apply neq_true in E. destruct E as [-> ->]. rewrite Hsp. auto.
          + change (mg b3 l j') with (mg (b <| b_merge := toggle (idx l0 j0) (b_merge b) |>) l j').
            rewrite mg_toggle by auto. unfold upd. destruct (neq l j' l0 j0) eqn:E; auto.
            apply neq_true in E. destruct E as [-> ->]. rewrite Em. auto. }
      destruct (IH b3 l0 j0 Hb3 ltac:(lia)) as (G0 & G1 & G2 & G3 & G4 & G5). cbv zeta in G0.
      splits; auto.
    + (* the sibling is busy: the block goes to its free list *)
      rewrite HLl, Hjc in Ht.
      pose proof (T_push_child _ _ _ _ _ _ _ _ Ht Hl0 Hj0 Hc Em) as Tp.
      set (p := addr b ord L j). set (b' := push_level b1 L p).
      assert (Hnew : ~ In p (get_level b L)) by (intros Hin; apply fr_In in Hin; congruence).
      splits; auto. constructor.
      * apply wfg_set_level; auto.
      * intros l Hll. change (addr b' ord l) with (addr b ord l). unfold b', push_level.
        destruct (N.eq_dec l L) as [->|Hne].
        -- rewrite (get_set_same b1 ord L _ Hw1) by lia. change (get_level b1 L) with (get_level b L).
           destruct (Hl L HL) as [Hnd Hel]. split.
           ++ apply NoDup_app_single; auto.
           ++ intros a Ha. apply in_app_iff in Ha. destruct Ha as [Ha|[<-|[]]]; auto. exists j. split; auto.
        -- rewrite get_set_other by auto. change (get_level b1 l) with (get_level b l). apply Hl; auto.
      * exact Hbl.
      * eapply (tinv_ext ord (upd (fr b ord) (l0 + 1) (2 * j0 + c) true) (al b ord) (sp b ord) (upd (mg b) l0 j0 true)); [|exact Tp].
        intros l j' Hll Hj'. splits; auto.
        -- unfold b', push_level. rewrite fr_set_level by (auto; lia). change (fr b1 ord l j') with (fr b ord l j').
           change (addr b1 ord l j') with (addr b ord l j'). change (get_level b1 L) with (get_level b L).
           unfold upd, neq. rewrite <- HLl, <- Hjc. destruct (l =? L) eqn:E; cbn [andb]; auto.
           apply N.eqb_eq in E. subst l. rewrite existsb_app_single. fold (fr b ord L j').
           destruct (j' =? j) eqn:E2.
           ++ apply N.eqb_eq in E2. rewrite E2. unfold p. rewrite N.eqb_refl. apply orb_true_r.
           ++ apply N.eqb_neq in E2. replace (addr b ord L j' =? p) with false; [apply orb_false_r|].
              symmetry. apply N.eqb_neq. intros He. apply addr_inj in He. auto.
        -- change (mg b' l j') with (mg (b <| b_merge := toggle (idx l0 j0) (b_merge b) |>) l j').
           rewrite mg_toggle by auto. unfold upd. destruct (neq l j' l0 j0) eqn:E; auto.
           apply neq_true in E. destruct E as [-> ->]. rewrite Em. auto.
Qed.

(** * Pages, trackers, histories *)
(** blocks of the tree are nested or disjoint *)
Lemma dyadic b ord l j l' j' x : l <= l' -> l' <= ord ->
  addr b ord l j <= x < addr b ord l j + szl ord l ->
  addr b ord l' j' <= x < addr b ord l' j' + szl ord l' ->
  j = j' / 2 ^ (l' - l).
Proof.
  intros H1 H2 [A1 A2] [B1 B2]. unfold addr in *. rewrite (szl_le ord l l') in * by lia.
  set (m := 2 ^ (l' - l)) in *. set (s := szl ord l') in *.
  assert (Hs : 0 < s) by apply szl_pos. assert (Hm : 0 < m) by apply pow2_pos.
  assert (K1 : j * m < j' + 1) by nia. assert (K2 : j' < (j + 1) * m) by nia.
  apply (N.div_unique j' m j (j' - j * m)); lia.
Qed.

Definition count_id (id : N) (t : list (N * N)) : N := N.of_nat (length (filter (fun e => snd e =? id) t)).

Record tkinv (b : buddy) (ord : N) : Prop := {
  tk_keys : NoDup (map fst (b_track b));
  tk_own : forall p id, In (p, id) (b_track b) -> exists init cnt lvl,
             assoc id (b_trackers b) = Some (init, cnt) /\ In (init, lvl, id) (b_blocks b) /\
             init <= p < init + szl ord lvl;
  tk_cnt : forall id init cnt, assoc id (b_trackers b) = Some (init, cnt) -> count_id id (b_track b) <= cnt
}.

Definition Binv (b : buddy) (ord : N) : Prop := binv b ord None /\ tkinv b ord.

(** a tracked page lies in an allocated block; the hole contains no tracked page *)
Lemma hole_untracked b ord L j p id : binv b ord (Some (L, j)) -> tkinv b ord ->
  In (p, id) (b_track b) -> addr b ord L j <= p < addr b ord L j + szl ord L -> False.
Proof.
  intros [Hw _ Hbl Ht] [_ Hown _] Hin Hr.
  pose proof (t_hole _ _ _ _ _ _ Ht) as Hh. cbn in Hh. destruct Hh as [HL Hj].
  destruct (Hown p id Hin) as (init & cnt & lvl & _ & Hb & Hp).
  destruct Hbl as (_ & _ & Hbv). destruct (Hbv _ _ _ Hb) as (Hlvl & _ & j' & Hj' & ->).
  assert (Hal : al b ord lvl j' = true) by (apply al_In; eauto).
  destruct (N.le_ge_cases L lvl) as [Hle|Hge].
  - pose proof (dyadic b ord L j lvl j' p Hle Hlvl Hr Hp) as Hd.
    eapply (not_nested ord _ _ _ _ _ L j lvl j' Ht); eauto. right. cbn. apply neq_refl.
  - pose proof (dyadic b ord lvl j' L j p Hge HL Hp Hr) as Hd.
    destruct (N.eq_dec lvl L) as [->|Hne].
    + rewrite N.sub_diag, N.pow_0_r, N.div_1_r in Hd. subst j'.
      destruct (hole_facts _ _ _ _ _ _ _ Ht) as ((_ & Ha & _) & _). congruence.
    + eapply (not_nested' ord _ _ _ _ _ lvl j' L j Ht); eauto. right. cbn. apply neq_refl.
Qed.

Lemma assoc_In {V} k (v : V) l : assoc k l = Some v -> In (k, v) l.
Proof.
  induction l as [|[k' v'] l IH]; cbn; [discriminate|]. destruct (k =? k') eqn:E.
  - apply N.eqb_eq in E. subst. intros H. inversion H. auto.
  - auto.
Qed.

Lemma In_assoc {V} k (v : V) l : NoDup (map fst l) -> In (k, v) l -> assoc k l = Some v.
Proof.
  induction l as [|[k' v'] l IH]; cbn; [tauto|]. intros Hn [H|H].
  - inversion H; subst. rewrite N.eqb_refl. auto.
  - inversion Hn; subst. destruct (k =? k') eqn:E; auto. apply N.eqb_eq in E. subst.
    exfalso. apply H2. apply (in_map fst) in H. auto.
Qed.

Lemma assoc_filter_other {V} k k' (l : list (N * V)) : k <> k' ->
  assoc k (filter (fun e => negb (fst e =? k')) l) = assoc k l.
Proof.
  intros Hne. induction l as [|[k2 v2] l IH]; cbn; auto.
  destruct (k2 =? k') eqn:E; cbn.
  - apply N.eqb_eq in E. subst. replace (k =? k') with false by (symmetry; apply N.eqb_neq; auto). auto.
  - rewrite IH. auto.
Qed.

Lemma filter_keys_NoDup (l : list (N * N)) f : NoDup (map fst l) -> NoDup (map fst (filter f l)).
Proof.
  induction l as [|a l IH]; cbn; intros Hn; auto. inversion Hn; subst.
  destruct (f a); cbn; auto. constructor; auto. intros Hin. apply H1.
  apply in_map_iff in Hin. destruct Hin as (x & Hx & Hf). apply filter_In in Hf. apply in_map_iff. exists x. tauto.
Qed.

Lemma count_id_cons id e t : count_id id (e :: t) = (if snd e =? id then 1 else 0) + count_id id t.
Proof. unfold count_id. cbn. destruct (snd e =? id); cbn [length]; lia. Qed.

Lemma count_id_filter_le id f t : count_id id (filter f t) <= count_id id t.
Proof.
  induction t as [|e t IH]; cbn; [lia|]. destruct (f e); rewrite ?count_id_cons; cbn; lia.
Qed.

Lemma count_id_remove id p t : NoDup (map fst t) -> In (p, id) t ->
  count_id id (filter (fun e => negb (fst e =? p)) t) + 1 = count_id id t.
Proof.
  induction t as [|[p' id'] t IH]; cbn; intros Hn Hin; [tauto|]. inversion Hn; subst.
  destruct Hin as [H|H].
  - inversion H; subst. rewrite N.eqb_refl. cbn. rewrite count_id_cons. cbn. rewrite N.eqb_refl.
    replace (filter (fun e => negb (fst e =? p)) t) with t; [lia|].
    symmetry. clear -H1. induction t as [|a t IH]; cbn; auto. cbn in H1.
    replace (fst a =? p) with false by (symmetry; apply N.eqb_neq; intros Heq; apply H1; auto). cbn. f_equal. apply IH. tauto.
  - destruct (p' =? p) eqn:E.
    + apply N.eqb_eq in E. subst. exfalso. apply H1. apply (in_map fst) in H. auto.
    + cbn. rewrite !count_id_cons. cbn. specialize (IH H2 H). lia.
Qed.

(** the tree invariant does not look at the trackers *)
Lemma binv_frame b b' ord h : b_base b' = b_base b -> b_size b' = b_size b -> b_free b' = b_free b ->
  b_split b' = b_split b -> b_merge b' = b_merge b -> b_blocks b' = b_blocks b -> b_next b' = b_next b ->
  binv b ord h -> binv b' ord h.
Proof.
  intros E1 E2 E3 E4 E5 E6 E7 [A B C D].
  assert (Hg : forall l, get_level b' l = get_level b l) by (intros; unfold get_level; rewrite E3; auto).
  assert (Ha : forall l j, addr b' ord l j = addr b ord l j) by (intros; unfold addr; rewrite E1; auto).
  constructor.
  - destruct A as [A1 A2]. split; [rewrite E3|rewrite E2]; auto.
  - intros l Hl. rewrite Hg. destruct (B l Hl) as [B1 B2]. split; auto.
    intros a Hin. destruct (B2 a Hin) as (j & Hj & ->). exists j. rewrite Ha. auto.
  - rewrite E6, E7. destruct C as (C1 & C2 & C3). splits; auto.
    intros a l id Hin. destruct (C3 a l id Hin) as (X & Y & j & Hj & ->). splits; auto. exists j. rewrite Ha. auto.
  - eapply tinv_ext; [|exact D]. intros l j Hl Hj. unfold fr, al, sp, mg. rewrite Hg, Ha, E4, E5, E6. auto.
Qed.

Lemma tkinv_frame b b' ord : b_track b' = b_track b -> b_trackers b' = b_trackers b -> b_blocks b' = b_blocks b ->
  tkinv b ord -> tkinv b' ord.
Proof. intros E1 E2 E3 [A B C]. constructor; rewrite ?E1, ?E2, ?E3; auto. Qed.

Lemma NoDup_map_filter {A B} (f : A -> B) (g : A -> bool) l : NoDup (map f l) -> NoDup (map f (filter g l)).
Proof.
  induction l as [|a l IH]; cbn; intros Hn; auto. inversion Hn; subst.
  destruct (g a); cbn; auto. constructor; auto. intros Hin. apply H1.
  apply in_map_iff in Hin. destruct Hin as (x & Hx & Hf). apply filter_In in Hf. apply in_map_iff. exists x. tauto.
Qed.

(** ** the block of a tracker is released: it becomes the hole *)
Lemma C_unalloc b ord init lvl id : binv b ord None -> In (init, lvl, id) (b_blocks b) ->
  exists j, j < 2 ^ lvl /\ lvl <= ord /\ init = addr b ord lvl j /\
    binv (b <| b_blocks := filter (fun e => negb (snd e =? id)) (b_blocks b) |>) ord (Some (lvl, j)).
Proof.
  intros [Hw Hl (Hb1 & Hb2 & Hb3) Ht] Hin. destruct (Hb3 _ _ _ Hin) as (Hlvl & Hid & j & Hj & ->).
  exists j. splits; auto.
  set (b' := b <| b_blocks := _ |>).
  constructor.
  - exact Hw.
  - exact Hl.
  - cbn [b_blocks b']. unfold b'. cbn. splits.
    + apply NoDup_map_filter; auto.
    + apply NoDup_map_filter; auto.
    + intros a l id' Hin'. apply filter_In in Hin'. apply Hb3. tauto.
  - eapply (tinv_ext ord (fr b ord) (upd (al b ord) lvl j false) (sp b ord) (mg b)).
    + intros l j' Hll Hj'. splits; auto.
      unfold upd. destruct (neq l j' lvl j) eqn:E.
      * apply neq_true in E. destruct E as [-> ->]. apply not_true_iff_false. intros Ha.
        apply al_In in Ha. destruct Ha as (id' & Hin'). change (addr b' ord lvl j) with (addr b ord lvl j) in Hin'.
        unfold b' in Hin'. cbn in Hin'. apply filter_In in Hin'. destruct Hin' as [Hin' Hne].
        assert (id' = id).
        { clear -Hb1 Hin Hin'. induction (b_blocks b) as [|e r IH]; [destruct Hin|]. cbn in Hb1. inversion Hb1; subst.
          destruct Hin as [->|Hin], Hin' as [He|Hin'].
          - inversion He; auto.
          - exfalso. apply H1. apply (in_map fst) in Hin'. auto.
          - subst e. exfalso. apply H1. apply (in_map fst) in Hin. auto.
          - auto. }
        subst id'. cbn in Hne. rewrite N.eqb_refl in Hne. discriminate.
      * apply neq_false in E.
        destruct (al b ord l j') eqn:Ea.
        -- apply al_In in Ea. destruct Ea as (id' & Hin'). apply al_In. exists id'.
           change (addr b' ord l j') with (addr b ord l j'). unfold b'. cbn. apply filter_In. split; auto.
           apply negb_true_iff. apply N.eqb_neq. cbn. intros ->.
           assert ((addr b ord l j', l) = (addr b ord lvl j, lvl)).
           { clear -Hb2 Hin Hin'. induction (b_blocks b) as [|e r IH]; [destruct Hin|]. cbn in Hb2. inversion Hb2; subst.
             destruct Hin as [->|Hin], Hin' as [He|Hin'].
             - inversion He; auto.
             - exfalso. apply H1. apply (in_map snd) in Hin'. auto.
             - subst e. exfalso. apply H1. apply (in_map snd) in Hin. auto.
             - auto. }
           inversion H. subst l. apply addr_inj in H1. lia.
        -- apply not_true_iff_false. intros Ha. apply al_In in Ha. destruct Ha as (id' & Hin').
           change (addr b' ord l j') with (addr b ord l j') in Hin'. unfold b' in Hin'. cbn in Hin'.
           apply filter_In in Hin'. assert (al b ord l j' = true) by (apply al_In; exists id'; tauto). congruence.
    + apply T_unalloc; auto. apply al_In. eauto.
Qed.

Lemma count_id_pos id p t : In (p, id) t -> 1 <= count_id id t.
Proof.
  induction t as [|e t IH]; cbn; [tauto|]. intros [->|H]; rewrite count_id_cons.
  - cbn. rewrite N.eqb_refl. lia.
  - specialize (IH H). lia.
Qed.

Lemma assoc_cons_filter {V} k k' (v : V) l :
  assoc k ((k', v) :: filter (fun e => negb (fst e =? k')) l) = if k =? k' then Some v else assoc k l.
Proof.
  cbn. destruct (k =? k') eqn:E; auto. apply N.eqb_neq in E. apply assoc_filter_other. auto.
Qed.

(** ** addSinglePAddr *)
Lemma bfree_page_Binv b ord p : Binv b ord ->
  Binv (bfree_page p b) ord /\
  (forall q, In q (map fst (b_track (bfree_page p b))) <-> In q (map fst (b_track b)) /\ q <> p).
Proof.
  intros [Hb Htk]. pose proof Htk as [Hk Hown Hcnt]. unfold bfree_page.
  destruct (assoc p (b_track b)) as [id|] eqn:Ea.
  2:{ split; [split; auto|]. intros q. split; [|tauto]. intros Hq. split; auto. intros ->.
      apply in_map_iff in Hq. destruct Hq as ([p' id'] & Hp' & Hin). cbn in Hp'. subst p'.
      apply (In_assoc _ _ _ Hk) in Hin. congruence. }
  apply assoc_In in Ea. destruct (Hown p id Ea) as (init & cnt & lvl & Htr & Hblk & Hrange).
  set (track1 := filter (fun e => negb (fst e =? p)) (b_track b)).
  set (b1 := b <| b_track := track1 |>).
  change (b_trackers b1) with (b_trackers b). rewrite Htr.
  set (cnt1 := cnt - 1).
  set (trk2 := (id, (init, cnt1)) :: filter (fun e => negb (fst e =? id)) (b_trackers b)).
  set (b2 := b1 <| b_trackers := trk2 |>).
  assert (Hkeys : forall q, In q (map fst track1) <-> In q (map fst (b_track b)) /\ q <> p).
  { intros q. unfold track1. split.
    - intros Hq. apply in_map_iff in Hq. destruct Hq as ([q' i'] & Hq' & Hin). cbn in Hq'. subst q'.
      apply filter_In in Hin. destruct Hin as [Hin Hne]. cbn in Hne. apply negb_true_iff, N.eqb_neq in Hne.
      split; auto. apply in_map_iff. exists (q, i'). auto.
    - intros [Hq Hne]. apply in_map_iff in Hq. destruct Hq as ([q' i'] & Hq' & Hin). cbn in Hq'. subst q'.
      apply in_map_iff. exists (q, i'). split; auto. apply filter_In. split; auto.
      cbn. apply negb_true_iff, N.eqb_neq. auto. }
  assert (Hc1 : count_id id track1 + 1 = count_id id (b_track b)) by (apply count_id_remove; auto).
  pose proof (Hcnt id init cnt Htr) as Hle.
  assert (Hb2 : binv b2 ord None) by (eapply binv_frame; [..|exact Hb]; reflexivity).
  assert (Hassoc2 : forall id', assoc id' trk2 = if id' =? id then Some (init, cnt1) else assoc id' (b_trackers b))
    by (intros; apply assoc_cons_filter).
  assert (Hown1 : forall q id', In (q, id') track1 -> In (q, id') (b_track b))
    by (intros q id' Hin; apply filter_In in Hin; tauto).
  destruct (cnt1 =? 0) eqn:E0.
  - (* the last page of the block: the block is released *)
    apply N.eqb_eq in E0.
    assert (Hnone : forall q, ~ In (q, id) track1).
    { intros q Hin. pose proof (count_id_pos id q track1 Hin). unfold cnt1 in E0. lia. }
    destruct (C_unalloc b2 ord init lvl id Hb2 Hblk) as (j & Hj & Hlvl & Hinit & Hb3).
    set (b3 := b2 <| b_blocks := filter (fun e => negb (snd e =? id)) (b_blocks b2) |>) in *.
    assert (Hw3 : wfg b3 ord) by (apply (bv_wfg _ _ _ Hb3)).
    assert (Hlen : N.of_nat (length (b_free b3)) = ord + 1) by (apply Hw3).
    rewrite (levels_wfg b3 ord Hw3).
    replace init with (addr b3 ord lvl j) by (rewrite Hinit; reflexivity).
    rewrite (level_of_block_spec b3 ord lvl j _ Hb3 ord) by lia.
    destruct (C_free_block ord (length (b_free b3)) b3 lvl j Hb3 ltac:(lia)) as (G0 & G1 & G2 & G3 & G4 & G5).
    cbv zeta in G0. split; [split; auto|].
    + constructor; rewrite ?G3, ?G4, ?G5.
      * apply filter_keys_NoDup; auto.
      * intros q id' Hin. change (b_track b3) with track1 in Hin.
        destruct (Hown q id' (Hown1 _ _ Hin)) as (init' & cnt' & lvl' & T1 & T2 & T3).
        assert (Hne : id' <> id) by (intros ->; eapply Hnone; eauto).
        exists init', cnt', lvl'. split; [|split; [|exact T3]].
        -- change (b_trackers b3) with trk2. rewrite Hassoc2.
           replace (id' =? id) with false by (symmetry; apply N.eqb_neq; auto). auto.
        -- change (b_blocks b3) with (filter (fun e => negb (snd e =? id)) (b_blocks b)). apply filter_In. split; auto.
           cbn. apply negb_true_iff, N.eqb_neq. auto.
      * intros id' init' cnt'. change (b_trackers b3) with trk2. change (b_track b3) with track1.
        rewrite Hassoc2. destruct (id' =? id) eqn:E.
        -- apply N.eqb_eq in E. rewrite E. intros H. inversion H as [[Hi Hcc]]. lia.
        -- intros H. pose proof (Hcnt _ _ _ H). pose proof (count_id_filter_le id' (fun e => negb (fst e =? p)) (b_track b)).
           fold track1 in H1. lia.
    + intros q. rewrite G3. apply Hkeys.
  - apply N.eqb_neq in E0. split; [split; auto|apply Hkeys].
    constructor.
    + apply filter_keys_NoDup; auto.
    + intros q id' Hin. change (b_track b2) with track1 in Hin.
      destruct (Hown q id' (Hown1 _ _ Hin)) as (init' & cnt' & lvl' & T1 & T2 & T3).
      change (b_trackers b2) with trk2. change (b_blocks b2) with (b_blocks b). rewrite Hassoc2.
      destruct (id' =? id) eqn:E.
      * apply N.eqb_eq in E. rewrite E in *. rewrite Htr in T1. inversion T1 as [[Hi Hcc]]. rewrite <- Hi in *. exists init, cnt1, lvl'. auto.
      * exists init', cnt', lvl'. auto.
    + intros id' init' cnt'. change (b_trackers b2) with trk2. change (b_track b2) with track1.
      rewrite Hassoc2. destruct (id' =? id) eqn:E.
      * apply N.eqb_eq in E. rewrite E. intros H. inversion H as [[Hi Hcc]]. unfold cnt1. lia.
      * intros H. pose proof (Hcnt _ _ _ H). pose proof (count_id_filter_le id' (fun e => negb (fst e =? p)) (b_track b)).
        fold track1 in H1. lia.
Qed.

(** ** blockTracking[page] = tracker, page by page *)
Definition track_add (id : N) (t : list (N * N)) (p : N) : list (N * N) :=
  (p, id) :: filter (fun e => negb (fst e =? p)) t.

Lemma count_track_add i id t p : count_id i (track_add id t p) <= (if id =? i then 1 else 0) + count_id i t.
Proof.
  unfold track_add. rewrite count_id_cons. cbn [snd].
  pose proof (count_id_filter_le i (fun e => negb (fst e =? p)) t). lia.
Qed.

Lemma fold_track id pages : forall t, NoDup (map fst t) ->
  let t' := fold_left (track_add id) pages t in
  NoDup (map fst t') /\
  (forall q i, In (q, i) t' -> (In q pages /\ i = id) \/ (In (q, i) t /\ ~ In q pages)) /\
  (forall q, In q pages -> In (q, id) t') /\
  (forall q i, In (q, i) t -> ~ In q pages -> In (q, i) t') /\
  (forall i, i <> id -> count_id i t' <= count_id i t) /\
  count_id id t' <= N.of_nat (length pages) + count_id id t.
Proof.
  induction pages as [|p r IH]; intros t Hn; cbv zeta; cbn [fold_left].
  - splits; auto; try lia; try (intros; cbn in *; tauto).
  - assert (Hn1 : NoDup (map fst (track_add id t p))).
    { unfold track_add. cbn. constructor; [|apply filter_keys_NoDup; auto].
      intros Hin. apply in_map_iff in Hin. destruct Hin as ([q i] & Hq & Hf). cbn in Hq. subst q.
      apply filter_In in Hf. destruct Hf as [_ Hf]. cbn in Hf. rewrite N.eqb_refl in Hf. discriminate. }
    destruct (IH _ Hn1) as (A1 & A2 & A3 & A4 & A5 & A6). cbv zeta in *. splits; auto.
    + intros q i Hin. destruct (A2 q i Hin) as [[H1 H2]|[H1 H2]]; [left; split; cbn; auto|].
      unfold track_add in H1. destruct H1 as [H1|H1].
      * inversion H1; subst. left. cbn. auto.
      * apply filter_In in H1. destruct H1 as [H1 Hne]. cbn in Hne. apply negb_true_iff, N.eqb_neq in Hne.
        right. split; auto. cbn. intros [->|H]; auto.
    + intros q [->|Hq]; auto.
      destruct (in_dec N.eq_dec q r) as [Hr|Hr]; auto. apply A4; auto. unfold track_add. cbn. auto.
    + intros q i Hin Hnin. apply A4; [|cbn in Hnin; tauto]. unfold track_add. right. apply filter_In. split; auto.
      cbn. apply negb_true_iff, N.eqb_neq. cbn in Hnin. intros ->. tauto.
    + intros i Hi. specialize (A5 i Hi). pose proof (count_track_add i id t p) as K.
      replace (id =? i) with false in K by (symmetry; apply N.eqb_neq; auto). lia.
    + pose proof (count_track_add id id t p) as K. rewrite N.eqb_refl in K. cbn [length]. lia.
Qed.

(** ** allocateMultiplePages *)
Lemma balloc_Binv b ord n pages b' : Binv b ord -> ord < 64 -> balloc n b = Some (pages, b') ->
  Binv b' ord /\ (forall p, In p pages -> ~ In p (map fst (b_track b))) /\
  (forall q, In q (map fst (b_track b')) <-> In q (map fst (b_track b)) \/ In q pages).
Proof.
  intros [Hb Htk] Hord H. unfold balloc in H.
  pose proof (bv_wfg _ _ _ Hb) as Hw. rewrite (levels_wfg b ord Hw) in H.
  set (order := order_from 64 12 (n * 4096)) in *.
  destruct (ord <? order - 12) eqn:Eo; [discriminate|]. apply N.ltb_ge in Eo.
  set (level := ord - (order - 12)) in *.
  destruct (find_level b (length (b_free b)) level) as [i|] eqn:Ef; [|discriminate].
  apply find_level_spec in Ef. destruct Ef as [Hil Hne].
  destruct (get_level b i) as [|block rest] eqn:Eg; [discriminate|].
  destruct (C_take b ord i block rest Hb ltac:(lia) Eg) as (j0 & Hj0 & Hblk & Ht).
  cbv zeta in Ht. destruct Ht as (Hb2 & F1 & F2 & F3 & F4 & F5).
  set (b2 := if 0 <? i then _ else _) in *.
  assert (Hlen : N.of_nat (length (b_free b)) = ord + 1) by apply Hw.
  assert (Hblk2 : block = addr b2 ord i j0) by (unfold addr; rewrite F1; exact Hblk).
  rewrite Hblk2 in H.
  destruct (C_split_down ord (length (b_free b)) b2 i j0 level Hb2 Hil ltac:(lia) ltac:(lia))
    as (Hb3 & G1 & G2 & G3 & G4 & G5). cbv zeta in Hb3.
  set (b3 := split_down _ _ _ _ _) in *.
  set (jL := j0 * 2 ^ (level - i)) in *.
  inversion H; subst pages b'; clear H.
  assert (Hblk3 : addr b2 ord i j0 = addr b3 ord level jL).
  { unfold jL. rewrite (addr_desc b2 ord i level j0) by lia. unfold addr. rewrite G1. auto. }
  rewrite Hblk3.
  pose proof (t_hole _ _ _ _ _ _ (bv_tree _ _ _ Hb3)) as Hh. cbn in Hh. destruct Hh as [HLo HjL].
  (* the pages of the request fit into the block *)
  assert (Hfit : n * 4096 <= szl ord level).
  { destruct (order_from_spec 64 12 (n * 4096)) as [Ho1 Ho2]. cbv zeta in *. fold order in Ho1, Ho2.
    destruct Ho2 as [Ho2|Ho2]; [|lia].
    unfold szl, level. replace (ord - (ord - (order - 12))) with (order - 12) by lia.
    change 4096 with (2 ^ 12) at 2. rewrite <- N.pow_add_r. replace (order - 12 + 12) with order by lia. auto. }
  assert (Htk3 : tkinv b3 ord).
  { eapply tkinv_frame; [..|exact Htk]; congruence. }
  set (blk := addr b3 ord level jL) in *.
  set (pgs := map (fun j => blk + N.of_nat j * 4096) (seq 0 (N.to_nat n))).
  assert (Hpg : forall p, In p pgs -> blk <= p < blk + szl ord level).
  { intros p Hp. apply in_map_iff in Hp. destruct Hp as (k & <- & Hk). apply in_seq in Hk. nia. }
  assert (Hun : forall p, In p pgs -> ~ In p (map fst (b_track b))).
  { intros p Hp Hin. apply in_map_iff in Hin. destruct Hin as ([q id] & Hq & Hin). cbn in Hq. subst q.
    eapply (hole_untracked b3 ord level jL p id Hb3 Htk3); [congruence|apply Hpg; auto]. }
  destruct (hole_facts _ _ _ _ _ _ _ (bv_tree _ _ _ Hb3)) as ((_ & Hal & _) & _).
  pose proof Htk3 as [K1 K2 K3].
  pose proof (bv_blocks _ _ _ Hb3) as (B1 & B2 & B3).
  fold (track_add (b_next b3)).
  destruct (fold_track (b_next b3) pgs (b_track b3) K1) as (T1 & T2 & T3 & T4 & T5 & T6). cbv zeta in *.
  set (trk' := fold_left (track_add (b_next b3)) pgs (b_track b3)) in *.
  set (bf := b3 <| b_track := trk' |> <| b_trackers := (b_next b3, (blk, n)) :: b_trackers b3 |>
                <| b_next := b_next b3 + 1 |> <| b_blocks := (blk, level, b_next b3) :: b_blocks b3 |>).
  assert (Hids : forall q id0, In (q, id0) (b_track b3) -> id0 < b_next b3).
  { intros q id0 Hin. destruct (K2 q id0 Hin) as (init & cnt & lvl & _ & Hbk & _). apply B3 in Hbk. tauto. }
  split; [split|split].
  - (* the tree *)
    constructor.
    + exact (bv_wfg _ _ _ Hb3).
    + exact (bv_lists _ _ _ Hb3).
    + cbn [b_blocks b_next bf]. unfold bf. cbn. splits.
      * constructor; auto. intros Hin. apply in_map_iff in Hin. destruct Hin as ([[a l] id] & He & Hin). cbn in He.
        inversion He; subst. assert (al b3 ord level jL = true) by (apply al_In; eauto). congruence.
      * constructor; auto. intros Hin. apply in_map_iff in Hin. destruct Hin as ([[a l] id] & He & Hin). cbn in He. subst id.
        apply B3 in Hin. lia.
      * intros a l id [He|Hin].
        -- inversion He; subst. splits; auto; try lia. exists jL. auto.
        -- destruct (B3 _ _ _ Hin) as (X & Y & Z). splits; auto. lia.
    + eapply (tinv_ext ord (fr b3 ord) (upd (al b3 ord) level jL true) (sp b3 ord) (mg b3)).
      * intros l j Hl Hj. splits; auto. unfold al, upd. change (addr bf ord l j) with (addr b3 ord l j).
        unfold bf. cbn [b_blocks]. cbn. unfold neq.
        destruct (blk =? addr b3 ord l j) eqn:E1; destruct (level =? l) eqn:E2; cbn.
        -- apply N.eqb_eq in E1, E2. subst l. apply addr_inj in E1. subst j. rewrite !N.eqb_refl. auto.
        -- rewrite N.eqb_sym, E2. auto.
        -- rewrite N.eqb_sym, E2. cbn. replace (j =? jL) with false; auto. symmetry. apply N.eqb_neq. intros ->.
           apply N.eqb_eq in E2. subst l. apply N.eqb_neq in E1. auto.
        -- rewrite N.eqb_sym, E2. auto.
      * apply T_finish. exact (bv_tree _ _ _ Hb3).
  - (* the trackers *)
    constructor.
    + exact T1.
    + intros q id0 Hin. change (b_track bf) with trk' in Hin. destruct (T2 q id0 Hin) as [[H1 ->]|[H1 H2]].
      * exists blk, n, level. splits; try apply Hpg; auto.
        -- unfold bf. cbn. rewrite N.eqb_refl. auto.
        -- unfold bf. cbn. auto.
      * destruct (K2 q id0 H1) as (init & cnt & lvl & X & Y & Z). exists init, cnt, lvl. splits; try apply Z.
        -- unfold bf. cbn. pose proof (Hids q id0 H1). replace (id0 =? b_next b3) with false by (symmetry; apply N.eqb_neq; lia). auto.
        -- unfold bf. cbn. auto.
    + intros id init cnt. unfold bf. cbn [b_trackers b_track]. cbn. destruct (id =? b_next b3) eqn:E.
      * apply N.eqb_eq in E. subst id. intros He. inversion He; subst.
        assert (count_id (b_next b3) (b_track b3) = 0).
        { unfold count_id. replace (filter (fun e => snd e =? b_next b3) (b_track b3)) with (@nil (N * N)); auto.
          symmetry. clear -Hids. induction (b_track b3) as [|[q id0] t IH]; cbn; auto.
          replace (id0 =? b_next b3) with false.
          - apply IH. intros q' i' Hin. apply (Hids q' i'). cbn. auto.
          - symmetry. apply N.eqb_neq. pose proof (Hids q id0 ltac:(cbn; auto)). lia. }
        unfold pgs in T6. rewrite map_length, seq_length, N2Nat.id in T6. fold pgs in T6. lia.
      * apply N.eqb_neq in E. intros He. specialize (K3 _ _ _ He). specialize (T5 id E). lia.
  - intros p Hp. rewrite <- G3, <- F3 in *. apply Hun; auto.
  - intros q. change (b_track bf) with trk'. rewrite <- F3, <- G3. split.
    + intros Hq. apply in_map_iff in Hq. destruct Hq as ([q' id0] & Hq' & Hin). cbn in Hq'. subst q'.
      destruct (T2 q id0 Hin) as [[H1 _]|[H1 _]]; [right; auto|left]. apply in_map_iff. exists (q, id0). auto.
    + intros [Hq|Hq].
      * apply in_map_iff in Hq. destruct Hq as ([q' id0] & Hq' & Hin). cbn in Hq'. subst q'.
        destruct (in_dec N.eq_dec q pgs) as [Hi|Hi].
        -- apply in_map_iff. exists (q, b_next b3). split; auto.
        -- apply in_map_iff. exists (q, id0). split; auto.
      * apply in_map_iff. exists (q, b_next b3). split; auto.
Qed.

(** * The initial state *)
Lemma order_from_pow fuel : forall o t, o <= t -> t <= o + N.of_nat fuel -> order_from fuel o (2 ^ t) = t.
Proof.
  induction fuel as [|fuel IH]; intros o t H1 H2; cbn [order_from].
  - lia.
  - destruct (2 ^ o <? 2 ^ t) eqn:E.
    + apply N.ltb_lt in E. apply N.pow_lt_mono_r_iff in E; [|lia]. apply IH; lia.
    + apply N.ltb_ge in E. apply N.pow_le_mono_r_iff in E; lia.
Qed.

Lemma nth_repeat_nil {A} n k : nth n (repeat (@nil A) k) [] = [].
Proof. revert n. induction k; destruct n; cbn; auto. Qed.

Lemma binit_Binv base k : k < 64 -> Binv (binit base (2 ^ k * 4096)) k.
Proof.
  intros Hk. unfold binit.
  assert (Ho : order_from 64 12 (2 ^ k * 4096) - 12 = k).
  { change 4096 with (2 ^ 12). rewrite <- N.pow_add_r. rewrite order_from_pow; lia. }
  rewrite Ho. set (b := mkBuddy _ _ _ _ _ _ _ _ _).
  assert (Hw : wfg b k).
  { split; cbn; auto. rewrite repeat_length. lia. }
  assert (Hg0 : get_level b 0 = [base]) by reflexivity.
  assert (Hg : forall l, 0 < l -> get_level b l = []).
  { intros l Hl. unfold get_level. cbn. destruct (N.to_nat l) eqn:E; [lia|]. apply nth_repeat_nil. }
  split.
  - constructor; auto.
    + intros l Hl. destruct (N.eq_dec l 0) as [->|Hne].
      * rewrite Hg0. split; [constructor; auto; constructor|]. intros a [<-|[]]. exists 0. split; [apply pow2_pos|].
        unfold addr. cbn. lia.
      * rewrite Hg by lia. split; [constructor|intros a []].
    + cbn. splits; [constructor|constructor|intros a l id []].
    + constructor.
      * cbn [hole].
        assert (F : fr b k 0 0 = true).
        { unfold fr. rewrite Hg0. cbn [existsb]. unfold addr. cbn [b_base b].
          replace (base + 0 * szl k 0 =? base) with true by (symmetry; apply N.eqb_eq; lia). reflexivity. }
        assert (A : al b k 0 0 = false) by reflexivity.
        assert (S : sp b k 0 0 = false) by (unfold sp, bit; cbn; apply andb_false_r).
        rewrite F, A, S. reflexivity.
      * intros l j c Hl Hj Hc. unfold sp at 1. cbn [b_split b]. unfold bit. cbn [existsb]. rewrite andb_false_r.
        split; auto. unfold none3. splits; auto.
        unfold fr. rewrite Hg by lia. auto.
        unfold sp, bit. cbn. apply andb_false_r.
      * intros j Hj. unfold sp. rewrite N.ltb_irrefl. auto.
      * intros l j Hl Hj. unfold mg, sp, bit. cbn. rewrite andb_false_r. auto.
      * exact I.
  - constructor; cbn; [constructor|intros p id []|intros id init cnt H; discriminate].
Qed.

(** * Histories *)
Lemma bfree_pages_Binv ord pages : forall b, Binv b ord ->
  let b' := fold_left (fun b p => bfree_page p b) pages b in
  Binv b' ord /\ (forall q, In q (map fst (b_track b')) <-> In q (map fst (b_track b)) /\ ~ In q pages).
Proof.
  induction pages as [|p r IH]; intros b Hb; cbv zeta; cbn [fold_left].
  - split; auto. intros q. cbn. tauto.
  - destruct (bfree_page_Binv b ord p Hb) as [Hb1 Hk1].
    destruct (IH _ Hb1) as [Hb2 Hk2]. cbv zeta in *. split; auto.
    intros q. rewrite Hk2, Hk1. cbn. intuition.
Qed.

Theorem double_handout_false ord : ord < 64 -> forall ops b live, Binv b ord ->
  (forall q, In q live -> In q (map fst (b_track b))) -> double_handout b live ops = false.
Proof.
  intros Hord. induction ops as [|[n|pages] r IH]; intros b live Hb Hl; cbn [double_handout]; auto.
  - destruct (bempty b); auto. destruct (balloc n b) as [[pgs b']|] eqn:E; auto.
    destruct (balloc_Binv b ord n pgs b' Hb Hord E) as (Hb' & Hun & Hk).
    apply orb_false_iff. split.
    + apply not_true_iff_false. intros Hex. apply existsb_exists in Hex. destruct Hex as (p & Hp & Hq).
      apply existsb_eqb_In in Hq. apply (Hun p Hp). auto.
    + apply IH; auto. intros q Hq. apply Hk. apply in_app_iff in Hq. destruct Hq; auto.
  - destruct (bfree_pages_Binv ord pages b Hb) as [Hb' Hk]. cbv zeta in *.
    apply IH; auto. intros q Hq. apply filter_In in Hq. destruct Hq as [Hq Hn]. apply Hk. split; auto.
    intros Hin. apply negb_true_iff in Hn. apply not_true_iff_false in Hn. apply Hn. apply existsb_eqb_In. auto.
Qed.

(** after the repair no history on a device of 2^k pages hands out a live page *)
Theorem buddy_no_overlap_all : forall base k ops, k < 64 ->
  double_handout (binit base (2 ^ k * 4096)) [] ops = false.
Proof.
  intros base k ops Hk. apply (double_handout_false k Hk); [apply binit_Binv; auto|intros q []].
Qed.

(** * Tiling: free-list blocks and allocated blocks partition the device *)
Definition leaf (frf alf : nfun) (l j : N) : bool := frf l j || alf l j.

(** a node that exists (no hole) is a leaf or split *)
Lemma node_status ord frf alf spf mgf l j : tinv ord frf alf spf mgf None -> l <= ord -> j < 2 ^ l ->
  exists_node frf alf spf None l j = true -> one3 (frf l j) (alf l j) (spf l j) = true.
Proof.
  intros [T1 T2 _ _ _] Hl Hj He.
  destruct (N.eq_dec l 0) as [->|Hne].
  - assert (j = 0) by (rewrite N.pow_0_r in Hj; lia). subst. exact T1.
  - assert (Hj2 : j / 2 < 2 ^ (l - 1)) by (apply half_lt; lia).
    pose proof (T2 (l - 1) (j / 2) (j mod 2) ltac:(lia) Hj2 ltac:(apply N.mod_lt; lia)) as K.
    replace (l - 1 + 1) with l in K by lia.
    replace (2 * (j / 2) + j mod 2) with j in K by (rewrite <- N.div_mod; lia).
    cbn [hole] in K. destruct (spf (l - 1) (j / 2)); auto.
    destruct K as ((A & B & C) & _). unfold exists_node in He. rewrite A, B, C in He. discriminate.
Qed.

(** every page (index x < 2^ord) lies in a leaf below any existing node that contains it *)
Lemma leaf_cover ord frf alf spf mgf : tinv ord frf alf spf mgf None ->
  forall n l j x, N.of_nat n = ord - l -> l <= ord -> j < 2 ^ l ->
  exists_node frf alf spf None l j = true -> j = x / 2 ^ (ord - l) ->
  exists l' , l <= l' /\ l' <= ord /\ leaf frf alf l' (x / 2 ^ (ord - l')) = true.
Proof.
  intros T. induction n as [|n IH]; intros l j x Hn Hl Hj He Hx.
  - assert (l = ord) by lia. subst l.
    pose proof (node_status _ _ _ _ _ _ _ T Hl Hj He) as K. rewrite (t_leaf _ _ _ _ _ _ T j Hj) in K.
    exists ord. splits; auto; try lia. rewrite <- Hx. unfold leaf.
    destruct (frf ord j), (alf ord j); cbn in *; auto.
  - pose proof (node_status _ _ _ _ _ _ _ T Hl Hj He) as K.
    destruct (spf l j) eqn:Es.
    + (* descend into the child that contains x *)
      assert (Hlt : l < ord) by lia.
      set (jc := x / 2 ^ (ord - (l + 1))).
      assert (Hrel : jc / 2 = j).
      { unfold jc. rewrite Hx. rewrite N.div_div by (try lia; pose proof (pow2_pos (ord - (l + 1))); lia).
        f_equal. replace (ord - l) with (ord - (l + 1) + 1) by lia. rewrite N.pow_add_r, N.pow_1_r. auto. }
      assert (Hc : jc = 2 * j + jc mod 2) by (rewrite <- Hrel; apply N.div_mod; lia).
      assert (Hcv : jc < 2 ^ (l + 1)).
      { rewrite Hc. apply child_valid; auto. apply N.mod_lt. lia. }
      pose proof (t_child _ _ _ _ _ _ T l j (jc mod 2) Hlt Hj ltac:(apply N.mod_lt; lia)) as K2.
      rewrite Es in K2. cbn [hole] in K2. rewrite <- Hc in K2.
      destruct (IH (l + 1) jc x ltac:(lia) ltac:(lia) Hcv) as (l' & H1 & H2 & H3); auto.
      * unfold exists_node. cbn [hole]. rewrite orb_false_r.
        destruct (frf (l + 1) jc), (alf (l + 1) jc), (spf (l + 1) jc); cbn in *; auto; discriminate.
      * exists l'. splits; auto. lia.
    + exists l. splits; auto; try lia. rewrite <- Hx. unfold leaf.
      destruct (frf l j), (alf l j); cbn in *; auto; discriminate.
Qed.

(** two different leaves are never nested *)
Lemma leaves_not_nested ord frf alf spf mgf l j l' j' : tinv ord frf alf spf mgf None ->
  l < l' -> l' <= ord -> j' < 2 ^ l' -> j = j' / 2 ^ (l' - l) ->
  leaf frf alf l j = true -> leaf frf alf l' j' = true -> False.
Proof.
  intros T Hll Hl' Hj' Hj H1 H2.
  assert (Hjv : j < 2 ^ l).
  { subst j. apply N.div_lt_upper_bound; [pose proof (pow2_pos (l' - l)); lia|].
    rewrite <- N.pow_add_r. replace (l' - l + l) with l' by lia. auto. }
  pose proof (ancestor_split ord frf alf spf mgf None T (N.to_nat (l' - l)) l' j' ltac:(lia) ltac:(lia) Hl' Hj') as K.
  rewrite N2Nat.id in K. replace (l' - (l' - l)) with l in K by lia. rewrite <- Hj in K.
  assert (Hs : spf l j = true).
  { apply K. unfold exists_node, leaf in *. destruct (frf l' j'), (alf l' j'); cbn in *; auto; discriminate. }
  assert (He : exists_node frf alf spf None l j = true) by (unfold exists_node; rewrite Hs; rewrite orb_true_r; auto).
  assert (Hlo : l <= ord) by lia.
  pose proof (node_status _ _ _ _ _ _ _ T Hlo Hjv He) as K3. rewrite Hs in K3.
  apply one3_sp in K3. unfold leaf in H1. destruct K3 as [K3a K3b]. rewrite K3a, K3b in H1. discriminate.
Qed.

(** in every reachable state: every page of the device belongs to a block that
    is on a free list or allocated, and two such blocks are never nested *)
Theorem buddy_tiles b ord : Binv b ord ->
  (forall x, x < 2 ^ ord -> exists l, l <= ord /\
     let j := x / 2 ^ (ord - l) in
     (In (addr b ord l j) (get_level b l) \/ exists id, In (addr b ord l j, l, id) (b_blocks b))) /\
  (forall l j l' j', l < l' -> l' <= ord -> j' < 2 ^ l' -> j = j' / 2 ^ (l' - l) ->
     (In (addr b ord l j) (get_level b l) \/ exists id, In (addr b ord l j, l, id) (b_blocks b)) ->
     (In (addr b ord l' j') (get_level b l') \/ exists id, In (addr b ord l' j', l', id) (b_blocks b)) -> False).
Proof.
  intros [[Hw Hl Hb Ht] _].
  assert (Hleaf : forall l j, leaf (fr b ord) (al b ord) l j = true <->
            (In (addr b ord l j) (get_level b l) \/ exists id, In (addr b ord l j, l, id) (b_blocks b))).
  { intros l j. unfold leaf. rewrite orb_true_iff, fr_In, al_In. tauto. }
  split.
  - intros x Hx.
    destruct (leaf_cover ord _ _ _ _ Ht (N.to_nat ord) 0 0 x ltac:(lia) ltac:(lia) (pow2_pos 0)) as (l' & _ & H2 & H3).
    + pose proof (t_root _ _ _ _ _ _ Ht) as K. cbn [hole] in K. unfold exists_node. cbn [hole].
      destruct (fr b ord 0 0), (al b ord 0 0), (sp b ord 0 0); cbn in *; auto; discriminate.
    + rewrite N.sub_0_r. symmetry. apply N.div_small. auto.
    + exists l'. split; auto. cbv zeta. apply Hleaf. auto.
  - intros l j l' j' H1 H2 H3 H4 A B. apply Hleaf in A, B.
    eapply (leaves_not_nested ord _ _ _ _ l j l' j' Ht); eauto.
Qed.

Lemma brun_Binv ord : ord < 64 -> forall ops b live r, Binv b ord -> brun b live ops = Some r ->
  Binv (fst (fst r)) ord.
Proof.
  intros Hord. induction ops as [|[n|pages] rest IH]; intros b live r Hb H; cbn [brun] in H.
  - inversion H; subst. auto.
  - destruct (bempty b); [discriminate|]. destruct (balloc n b) as [[pgs b']|] eqn:E; [|discriminate].
    destruct (brun b' (pgs ++ live) rest) as [[[bf lf] outs]|] eqn:E2; [|discriminate]. inversion H; subst. cbn.
    destruct (balloc_Binv b ord n pgs b' Hb Hord E) as (Hb' & _).
    apply (IH b' (pgs ++ live) (bf, lf, outs) Hb' E2).
  - destruct (brun _ _ rest) as [[[bf lf] outs]|] eqn:E2; [|discriminate]. inversion H; subst. cbn.
    destruct (bfree_pages_Binv ord pages b Hb) as [Hb' _]. cbv zeta in Hb'.
    apply (IH _ _ (bf, lf, outs) Hb' E2).
Qed.
