(** The dirty marks over-approximate the buffers that need a flush, for every history. *)
From Coq Require Import List NArith Bool Arith Lia ZifyN ZifyNat ZifyBool.
From VDrv Require Import MemCopy MemCopyProofs FlushHist.
Import ListNotations.
Open Scope N_scope.

Definition prefix_dirty (bufs : list buffer) (m : nat) : Prop :=
  (m <= length bufs)%nat /\ forall i b, (i < m)%nat -> nth_error bufs i = Some b -> b_dirty b = true.

Definition HInv (s : hst) : Prop :=
  Forall (prefix_dirty (h_bufs s)) (g_need s ++ map snd (g_run s)).

Lemma hinit_inv bufs : HInv (hinit bufs).
Proof. constructor. Qed.

Lemma prefix_dirty_app bufs x m : prefix_dirty bufs m -> prefix_dirty (bufs ++ [x]) m.
Proof.
  intros [Hl Hd]. split; [rewrite app_length; lia|]. intros i b Hi Hn.
  rewrite nth_error_app1 in Hn by lia. eauto.
Qed.

Lemma prefix_dirty_marked bufs m : (m <= length bufs)%nat -> prefix_dirty (map mark_dirty bufs) m.
Proof.
  intros Hl. split; [rewrite map_length; assumption|]. intros i b _ Hn.
  rewrite nth_error_map in Hn. destruct (nth_error bufs i); inversion Hn. reflexivity.
Qed.

Lemma hstep_inv s e : HInv s -> HInv (fst (hstep s e)).
Proof.
  unfold HInv. intros H. destruct e as [a n|k|k|a n]; cbn.
  - eapply Forall_impl; [|exact H]. intros m. apply prefix_dirty_app.
  - rewrite Forall_forall in *. intros m Hm. apply prefix_dirty_marked.
    apply in_app_iff in Hm as [Hm|[<-|Hm]]; [| lia |].
    + apply (H m). apply in_app_iff. auto.
    + apply (H m). apply in_app_iff. auto.
  - rewrite Forall_forall in *. intros m Hm. apply H.
    rewrite !in_app_iff in *. destruct Hm as [[Hm|Hm]|Hm]; auto.
    + right. apply in_map_iff in Hm as (x & <- & Hx). apply filter_In in Hx. apply in_map. tauto.
    + right. apply in_map_iff in Hm as (x & <- & Hx). apply filter_In in Hx. apply in_map. tauto.
  - destruct (need_flushing (h_bufs s) a n); cbn; [|exact H].
    rewrite Forall_forall in *. intros m Hm. apply H. apply in_app_iff. auto.
Qed.

Lemma hrun_inv evs : forall s, HInv s -> HInv (hrun s evs).
Proof.
  induction evs as [|e r IH]; intros s H; [exact H|].
  change (hrun s (e :: r)) with (hrun (fst (hstep s e)) r). apply IH. apply hstep_inv. exact H.
Qed.

Lemma inv_flushes s a n : HInv s -> 0 < n -> must_flush s a n -> need_flushing (h_bufs s) a n = true.
Proof.
  intros H Hn (m & i & b & Hm & Hi & Hnth & Hsz & x & Hx1 & Hx2).
  unfold HInv in H. rewrite Forall_forall in H.
  destruct (H m) as [_ Hd]; [apply in_app_iff; auto|].
  unfold need_flushing, need_flushing_with. apply existsb_exists. exists b.
  split; [eapply nth_error_In; eauto|]. rewrite (Hd i b Hi Hnth), andb_true_r.
  apply overlap_iff; [lia|lia|]. exists x. tauto.
Qed.
