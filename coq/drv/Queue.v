(** C12 — data of amd/driver/commandqueue.go: command queues, their status
    listeners and the application threads that own the listeners.
    Definitions only (executable); the system-level transition function is in
    Handoff.v, proofs are in QueueSafety.v / QueueLive.v.

    Transcription notes.
    - A [CommandQueue] is [commands] (guarded by commandsMutex), [IsRunning]
      (not guarded by anything) and [listeners] (guarded by listenerMutex).
      Every critical section of these two mutexes contains no blocking
      operation and no yield point; each is one atomic step here.
    - A [CommandQueueStatusListener] belongs to the one application thread that
      is inside DrainCommandQueue; it is identified with that thread.  Its
      [signal] channel has capacity 0 in the original code and capacity 1 in
      the repaired code (flag [cap1]); [a_tok] is the buffered token.
    - [Notify] is the three-way select {closeSignal, signal <- true, default}. *)
From Coq Require Import List NArith Bool Arith.
Import ListNotations.
From RecordUpdate Require Import RecordSet.
Import RecordSetNotations.

(** Noop: NoopCommand. Async: completes when the device answers a request (kernel
    launch). Empty: a zero-byte memory copy that needs no flush - it is started
    (IsRunning = true), creates no request, and the copy middleware's next Tick
    completes it (completeEmptyCopies). *)
Inductive kind := Noop | Async | Empty.
Record cmd := mkCmd { c_id : N; c_kind : kind }.

(** Operations of an application thread: Driver.Enqueue(q, c) and
    Driver.DrainCommandQueue(q). *)
Inductive op := OEnq (q : nat) (c : cmd) | ODrain (q : nat).

Record queue := mkQueue {
  q_cmds : list cmd;       (* CommandQueue.commands *)
  q_running : bool;        (* CommandQueue.IsRunning *)
  q_lst : list nat;        (* CommandQueue.listeners (owner thread ids) *)
  q_ctx : nat;             (* the Context that owns the queue (never changes) *)
  q_req : N;               (* ID of the request in flight for the head command (meaningful while IsRunning) *)
  (* ghost histories, never read by the transition function *)
  q_enq : list N;          (* ids appended by Enqueue, in order *)
  q_start : list N;        (* ids whose processing started, in order *)
  q_done : list N          (* ids removed by Dequeue, in order *)
}.
#[export] Instance eta_queue : Settable _ :=
  settable! mkQueue <q_cmds; q_running; q_lst; q_ctx; q_req; q_enq; q_start; q_done>.

Definition empty_queue_in (ctx : nat) : queue := mkQueue [] false [] ctx 0 [] [] [].
Definition empty_queue : queue := empty_queue_in 0.

(** Program counters of an application thread = the yield points of
    CommandQueue.Enqueue and Driver.DrainCommandQueue. *)
Inductive apc :=
| AIdle                 (* between two API calls *)
| AEnqNotify (q : nat)  (* Enqueue: appended, about to NotifyAllSubscribers *)
| ASignal (q : nat)     (* Drain: subscribed, about to send on enqueueSignal *)
| ACheck (q : nat)      (* Drain: about to test NumCommand() == 0 *)
| AWait (q : nat)       (* Drain: saw n > 0, about to execute <-signal *)
| AParked (q : nat)     (* Drain: blocked in <-signal *)
| AClose (q : nat)      (* Unsubscribe: about to close(closeSignal) *)
| AUnsub (q : nat).     (* Unsubscribe: about to remove the listener *)

Record app := mkApp {
  a_pc : apc;
  a_prog : list op;       (* calls still to make *)
  a_tok : bool;           (* a token is buffered in listener.signal (capacity 1 only) *)
  a_closed : bool;        (* listener.closeSignal is closed *)
  (* ghost *)
  a_dirty : bool;         (* has enqueued since its last send on enqueueSignal *)
  a_ret : nat             (* number of DrainCommandQueue calls that returned *)
}.
#[export] Instance eta_app : Settable _ :=
  settable! mkApp <a_pc; a_prog; a_tok; a_closed; a_dirty; a_ret>.

Definition init_app (p : list op) : app := mkApp AIdle p false false false 0.

Fixpoint upd {A} (i : nat) (f : A -> A) (l : list A) : list A :=
  match l, i with
  | [], _ => []
  | x :: r, O => f x :: r
  | x :: r, S j => x :: upd j f r
  end.

(** Listener.Notify seen from the owner of the listener. *)
Definition notify1 (cap1 : bool) (a : app) : app :=
  if a_closed a then a
  else match a_pc a with
       | AParked q => a <| a_pc := ACheck q |>          (* receiver parked: hand-off *)
       | _ => if cap1 && negb (a_tok a)
              then a <| a_tok := true |>                 (* buffered send *)
              else a                                     (* default branch *)
       end.

(** CommandQueue.NotifyAllSubscribers. *)
Definition notify_all (cap1 : bool) (ls : list nat) (apps : list app) : list app :=
  fold_left (fun ap t => upd t (notify1 cap1) ap) ls apps.

Definition q_append (c : cmd) (q : queue) : queue :=
  q <| q_cmds := q_cmds q ++ [c] |> <| q_enq := q_enq q ++ [c_id c] |>.

Fixpoint remove_first (t : nat) (l : list nat) : list nat :=
  match l with
  | [] => []
  | x :: r => if Nat.eqb x t then r else x :: remove_first t r
  end.

Fixpoint mem_nat (t : nat) (l : list nat) : bool :=
  match l with [] => false | x :: r => Nat.eqb x t || mem_nat t r end.

Definition kind_eqb (a b : kind) : bool :=
  match a, b with Noop, Noop | Async, Async | Empty, Empty => true | _, _ => false end.

Definition nonempty {A} (l : list A) : bool := match l with [] => false | _ :: _ => true end.

(** Driver.findCommandByReqID: the first queue, context by context and queue by
    queue (= list order), whose head command has the request [rid] in flight. *)
Fixpoint find_req (l : list queue) (rid : N) (i : nat) : option nat :=
  match l with
  | [] => None
  | qq :: r => if q_running qq && N.eqb (q_req qq) rid then Some i else find_req r rid (S i)
  end.
