(** Lemmas behind the driver-side statements of props/C19.v. *)
From VDrv Require Import Migration.
Open Scope N_scope.

Lemma same_key_true pid va p : same_key pid va p = true <-> pg_pid p = pid /\ pg_vaddr p = va.
Proof. unfold same_key. rewrite andb_true_iff, !N.eqb_eq. tauto. Qed.

Lemma same_key_other pid va pid' va' p :
  (pid', va') <> (pid, va) -> same_key pid va p = true -> same_key pid' va' p = false.
Proof.
  intros Hn H. apply same_key_true in H. destruct H as [<- <-].
  destruct (same_key pid' va' p) eqn:E; auto. apply same_key_true in E. destruct E as [<- <-]. congruence.
Qed.

Lemma pt_update_spec pt : forall pid va old pg,
  pt_lookup pt pid va = Some old -> pg_pid pg = pid -> pg_vaddr pg = va ->
  exists pt', pt_update pt pg = Some pt' /\
    pt_lookup pt' pid va = Some pg /\
    (forall pid' va', (pid', va') <> (pid, va) -> pt_lookup pt' pid' va' = pt_lookup pt pid' va').
Proof.
  induction pt as [|p pt IH]; intros pid va old pg Hl E1 E2; [discriminate|].
  unfold pt_lookup in *. cbn [find pt_update] in *. rewrite E1, E2.
  destruct (same_key pid va p) eqn:Ek.
  - eexists; split; [reflexivity|]. split.
    + cbn [find]. replace (same_key pid va pg) with true; auto.
      symmetry. apply same_key_true. auto.
    + intros pid' va' Hn. cbn [find].
      rewrite (same_key_other pid va pid' va' p Hn Ek).
      replace (same_key pid' va' pg) with false; auto.
      symmetry. apply (same_key_other pid va); auto. apply same_key_true; auto.
  - destruct (IH pid va old pg Hl E1 E2) as (pt' & Eu & L1 & L2). rewrite Eu.
    eexists; split; [reflexivity|]. split.
    + cbn [find]. rewrite Ek. exact L1.
    + intros pid' va' Hn. cbn [find]. destruct (same_key pid' va' p); auto.
Qed.

Theorem migration_only_target : forall d pid va gpu pg,
  pt_align d va = va ->
  pt_find_in d (d_pt d) pid va = Some pg ->
  dev_can_alloc d (gpu + 1) = true ->
  match prepare_page_for_migration d pid va gpu with
  | None => False
  | Some (d', newpage, old) =>
    old = pg_paddr pg /\
    pt_find_in d' (d_pt d') pid va = Some newpage /\
    pg_device newpage = gpu + 1 /\ pg_migrating newpage = true /\
    pg_vaddr newpage = va /\ pg_pid newpage = pid /\ pg_valid newpage = true /\
    d_alloc d (gpu + 1) = pg_paddr newpage :: d_alloc d' (gpu + 1) /\
    (forall pid' va', (pid', pt_align d va') <> (pid, va) ->
       pt_find_in d' (d_pt d') pid' va' = pt_find_in d (d_pt d) pid' va') /\
    (forall dev, dev <> gpu + 1 -> d_alloc d' dev = d_alloc d dev) /\
    d_log2 d' = d_log2 d
  end.
Proof.
  intros d pid va gpu pg Hal Hf Hc.
  unfold prepare_page_for_migration, allocate_page_with_given_vaddr. rewrite Hf.
  unfold dev_can_alloc in Hc. destruct (d_alloc d (gpu + 1)) as [|pa rest] eqn:Ea; [discriminate|].
  unfold pt_find_in in Hf. rewrite Hal in Hf.
  set (np := mkPage pid pa va (2 ^ d_log2 d) true (gpu + 1) true false false).
  destruct (pt_update_spec (d_pt d) pid va pg np Hf eq_refl eq_refl) as (pt1 & U1 & L1 & O1).
  rewrite U1. cbn [d_pt d_log2 d_alloc d_mirror pg_pid pg_paddr pg_vaddr pg_size pg_valid pg_unified pg_pinned np].
  set (np' := mkPage pid pa va (2 ^ d_log2 d) true (gpu + 1) true true false).
  destruct (pt_update_spec pt1 pid va np np' L1 eq_refl eq_refl) as (pt2 & U2 & L2 & O2).
  rewrite U2. unfold pt_find_in, pt_align. cbn [d_pt d_log2 d_alloc].
  fold (pt_align d va). rewrite Hal.
  repeat split; auto.
  - unfold set_alloc. rewrite N.eqb_refl. reflexivity.
  - intros pid' va' Hn. fold (pt_align d va'). rewrite O2, O1; auto.
  - intros dev Hn. unfold set_alloc. destruct (dev =? gpu + 1) eqn:E; auto.
    apply N.eqb_eq in E. contradiction.
Qed.

(** the driver's counters: never two page requests in flight *)
Definition dq_inv (d : dq) : Prop :=
  (dq_inflight d <= 1)%nat /\ (dq_inflight d = 1%nat <-> dq_busy d = true).

Lemma drv_step_inv d e : dq_inv d -> dq_inv (drv_step d e).
Proof.
  intros [H1 H2]. destruct e as [n|ok|]; cbn.
  - split; auto.
  - destruct (dq_queue d); [split; auto|]. destruct (dq_busy d) eqn:Eb; [split; auto; rewrite Eb; auto|].
    destruct ok; [|split; auto; rewrite Eb; auto]. cbn.
    assert (dq_inflight d = 0%nat).
    { destruct (dq_inflight d) as [|[|k]]; auto; [|lia]. destruct H2 as [H2 _]. specialize (H2 eq_refl). discriminate. }
    unfold dq_inv; cbn. rewrite H. split; [lia|tauto].
  - destruct (dq_inflight d) as [|k] eqn:Ei; [split; auto; rewrite Ei; auto|]. unfold dq_inv; cbn. split; [lia|].
    split; [intros ->; lia|discriminate].
Qed.

Theorem one_in_flight : forall evs,
  let d := drv_run drv_init evs in
  (dq_inflight d <= 1)%nat /\ (dq_inflight d = 1%nat <-> dq_busy d = true).
Proof.
  intros evs. cbn zeta. unfold drv_run.
  assert (H : dq_inv drv_init) by (split; cbn; [lia|split; discriminate]).
  revert H. generalize drv_init. induction evs as [|e evs IH]; intros d H; [exact H|].
  cbn. apply IH. apply drv_step_inv. exact H.
Qed.
