(* Multi-request commands (MultiReq.v): corollaries used by props/C12.v, the
   measure that bounds every schedule, and the checker that replays what the
   real driver did in the harness' unified mode (groups of events between two
   quiet points of the hand-ticked driver). *)
From Coq Require Import List NArith Bool Arith Lia.
Import ListNotations.
From VDrv Require Import MultiReq MultiReqProofs.

(* ---- replay of the real driver: between two quiet points the driver handles
   the answers delivered (in delivery order) and then possibly starts the next
   command; only the state at the quiet point can be observed ---- *)
Fixpoint steps (s : st) (es : list ev) : option st :=
  match es with
  | [] => Some s
  | e :: t => match step LastReply s e with
              | Some s' => steps s' t
              | None => None
              end
  end.

Definition gcase := (list cmd * list (list ev * obs))%type.

Fixpoint gcheck_from (s : st) (i : nat) (l : list (list ev * obs)) : nat :=
  match l with
  | [] => 0
  | (es, o) :: t =>
      match steps s es with
      | None => S i
      | Some s' =>
          (* quiet point: the driver started whatever it could, so EStart must be disabled *)
          match step LastReply s' EStart with
          | Some _ => S i
          | None => if obs_eqb (observe s') o then gcheck_from s' (S i) t else S i
          end
      end
  end.

Definition check_gcase (c : gcase) : nat := gcheck_from (init (fst c)) 0 (snd c).

Fixpoint gm_from (i : nat) (l : list gcase) : list (N * N) :=
  match l with
  | [] => []
  | c :: t =>
      match check_gcase c with
      | 0 => gm_from (S i) t
      | S m => (N.of_nat i, N.of_nat (S m)) :: gm_from (S i) t
      end
  end.

Definition group_mismatches (l : list gcase) : list (N * N) := gm_from 0 l.

(* ---- when the queue has drained, every command was sent exactly once per member ---- *)
Lemma skipn_nil_len : forall (A : Type) n (l : list A), skipn n l = [] -> length l <= n.
Proof.
  induction n; intros l H.
  - simpl in H. subst. simpl. lia.
  - destruct l; simpl in *; [lia|]. apply IHn in H. lia.
Qed.

Theorem multi_drained : forall q0 evs, all_pos q0 ->
  let s := run LastReply (init q0) evs in
  queue s = [] ->
  ndone s = length q0 /\ nstarted s = length q0 /\ running s = false /\ reqs s = []
  /\ sent s = expected_sent q0 (length q0).
Proof.
  intros q0 evs Hp s Hq.
  destruct (multi_fifo q0 evs Hp) as (H1 & H2 & H3 & H4 & H5 & H6).
  fold s in H1, H2, H3, H4, H5, H6.
  assert (R : running s = false).
  { destruct (running s) eqn:E; auto. exfalso. apply H6; auto. }
  rewrite Hq in H1. symmetry in H1. apply skipn_nil_len in H1.
  assert (D : ndone s = length q0) by lia.
  rewrite R in H3.
  assert (S' : nstarted s = length q0) by lia.
  repeat split; auto.
  - destruct (reqs s) eqn:E; auto. exfalso.
    assert (running s = true) by (apply H5; discriminate). congruence.
  - rewrite H4, S'. reflexivity.
Qed.

(* ---- every schedule is finite: a measure that drops by one on every enabled event ---- *)
Definition weight (l : list cmd) : nat := fold_right (fun c a => S (c_n c) + a) 0 l.

Definition measure (s : st) : nat :=
  length (reqs s) + weight (if running s then tl (queue s) else queue s).

Lemma remove_nth_length : forall (A : Type) k (l : list A),
  k < length l -> length (remove_nth k l) = pred (length l).
Proof.
  induction k; intros l H; destruct l; simpl in *; try lia.
  rewrite IHk by lia. lia.
Qed.

Theorem multi_measure_decreases : forall q0 evs e s', all_pos q0 ->
  let s := run LastReply (init q0) evs in
  step LastReply s e = Some s' -> S (measure s') = measure s.
Proof.
  intros q0 evs e s' Hp s Hs.
  destruct (multi_fifo q0 evs Hp) as (H1 & H2 & H3 & H4 & H5 & H6).
  fold s in H1, H2, H3, H4, H5, H6.
  unfold measure, step in *.
  destruct e as [|k].
  - destruct (queue s) as [|c rest] eqn:Q; [discriminate|].
    destruct (running s) eqn:R; [discriminate|].
    assert (Hc : 1 <= c_n c).
    { destruct (skipn_cons_inv _ (mkCmd 0 0) _ _ _ _ (eq_sym H1)) as (Hn & _ & Hl).
      rewrite <- Hn. apply all_pos_nth; auto. }
    assert (E : reqs s = []).
    { destruct (reqs s) eqn:E; auto. exfalso.
      assert (false = true) by (apply H5; discriminate). discriminate. }
    inversion Hs; subst s'; clear Hs. cbn [reqs running queue].
    destruct (c_n c) eqn:N; [lia|].
    rewrite E. cbn [app tl weight fold_right]. rewrite map_length, seq_length. rewrite N. simpl. lia.
  - destruct (k <? length (reqs s)) eqn:K; [|discriminate].
    apply Nat.ltb_lt in K.
    destruct (queue s) as [|c rest] eqn:Q; [discriminate|].
    pose proof (remove_nth_length _ k (reqs s) K) as L.
    assert (R : running s = true).
    { apply H5. intro E. rewrite E in K. simpl in K. lia. }
    destruct (remove_nth k (reqs s)) as [|x t] eqn:E;
      inversion Hs; subst s'; clear Hs; cbn [reqs running queue].
    + rewrite R. cbn [tl]. simpl in L. simpl. lia.
    + rewrite R. cbn [tl]. simpl in L. simpl. lia.
Qed.
