(** Sequences of host-device copies, storage-accessor accesses and page moves on
    one flat physical memory.  A batch of commands enqueued on the queues of a
    context and drained once executes, per queue, in the order of enqueueing;
    the harness gives the queues disjoint footprints, so the batch appears here
    as one sequence.  Every operation translates through the page table that is
    current when it executes: a Remap (Driver.Remap / Distribute / page
    migration) replaces the entry of a virtual page, nothing is cached
    (amd/driver/memorycopy*.go, amd/emu/storageaccessor.go: pageTable.Find per
    piece).  Definitions only. *)
From Coq Require Import List NArith Bool.
From VLib Require Import Chunks.
From VMem Require Import StorageAccessor.
From VDrv Require Import MemCopy.
Import ListNotations.
Open Scope N_scope.

Inductive sop :=
| SH2D (addr : N) (data : list N)
| SD2H (addr n : N)
| SAccW (addr : N) (data : list N)
| SAccR (addr n : N)
| SRemap (key : N) (pg : page).      (* the page table now answers [pg] for the page at [key] *)

Record sst := mkS { s_pt : list (N * page); s_mem : bytes }.

(** [None]: the Go code panics (a page is not mapped). *)
Definition exec (lg : N) (s : sst) (o : sop) : option (sst * list N) :=
  let pt := pt_of_list (s_pt s) in
  match o with
  | SH2D a data =>
    match split_pages lg pt a (len data) with
    | Ok l => Some (mkS (s_pt s) (h2d (of_list data) l (s_mem s)), [])
    | _ => None
    end
  | SD2H a n =>
    match split_pages lg pt a n with
    | Ok l => Some (s, to_list (d2h (s_mem s) l zero) 0 n)
    | _ => None
    end
  | SAccW a data =>
    match acc_write lg pt a (of_list data) (len data) (s_mem s) with
    | Some m' => Some (mkS (s_pt s) m', [])
    | None => None
    end
  | SAccR a n =>
    match acc_read lg pt a n (s_mem s) with
    | Some b => Some (s, to_list b 0 n)
    | None => None
    end
  | SRemap k pg => Some (mkS ((k, pg) :: s_pt s) (s_mem s), [])
  end.

(** Observations: [Some out] = completed with these bytes returned, [None] = panic. *)
Record scase := mkSCase {
  sc_lg : N;
  sc_pt : list (N * page);
  sc_ops : list (sop * option (list N));
  sc_windows : list (N * list N)
}.

Fixpoint run_seq (lg : N) (i : nat) (s : sst) (ops : list (sop * option (list N))) : option nat * sst :=
  match ops with
  | [] => (None, s)
  | (o, seen) :: r =>
    match exec lg s o, seen with
    | Some (s', out), Some got => if nl_eqb out got then run_seq lg (S i) s' r else (Some i, s)
    | None, None => (None, s)
    | _, _ => (Some i, s)
    end
  end.

Definition check_scase (c : scase) : option nat :=
  let '(r, s) := run_seq (sc_lg c) 1%nat (mkS (sc_pt c) zero) (sc_ops c) in
  match r with
  | Some i => Some i
  | None =>
    if existsb (fun x => match snd x with None => true | _ => false end) (sc_ops c) then None else
    if forallb (fun w => nl_eqb (to_list (s_mem s) (fst w) (len (snd w))) (snd w)) (sc_windows c)
    then None else Some (S (length (sc_ops c)))
  end.

Fixpoint smismatches_from (i : nat) (cs : list scase) : list (nat * nat) :=
  match cs with
  | [] => []
  | c :: r => match check_scase c with
              | None => smismatches_from (S i) r
              | Some k => (i, k) :: smismatches_from (S i) r
              end
  end.
Definition smismatches := smismatches_from 0.

(** The flat reference the monitor uses: one byte array over virtual addresses. *)
Definition vwrite (f : bytes) (addr : N) (data : list N) : bytes :=
  fun v => if (addr <=? v) && (v <? addr + len data) then nth (N.to_nat (v - addr)) data 0 else f v.
Definition vread (f : bytes) (addr n : N) : list N := to_list f addr n.
