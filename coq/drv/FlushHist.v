(** The flush decision over HISTORIES of one driver context: the per-buffer
    dirty marks (driver.buffer.l2Dirty in ctx.buffers) as the code maintains
    them, next to a ghost account of which buffers really need a flush.

    Code (amd/driver): AllocateMemory appends a clean buffer; processing a
    LaunchKernelCommand (any queue of the context) calls markAllBuffersDirty;
    a kernel's completion changes no mark; processMemCopyH2D/D2HCommand decide
    with needFlushing and leave the marks as they are (markAllBuffersClean is
    never called).  Queues of one context interleave freely, so the model takes
    arbitrary event sequences.  Definitions only. *)
From Coq Require Import List NArith Bool Arith.
From VDrv Require Import MemCopy.
Import ListNotations.
Open Scope N_scope.

Inductive hev :=
| HAlloc (start size : N)      (* AllocateMemory *)
| HLaunch (k : N)              (* a kernel starts (command taken from queue k) *)
| HComplete (k : N)            (* the kernel of queue k has completed (LaunchKernelRsp) *)
| HCopy (addr n : N).          (* an H2D or D2H command is taken from some queue *)

(** Ghost: buffers are append-only, so "the buffers that existed when the kernel
    was launched" is a prefix length.  [g_run]: kernels in flight (queue, prefix);
    [g_need]: prefixes written by kernels that completed after the last flush
    was issued — a copy touching one of those buffers must flush. *)
Record hst := mkH { h_bufs : list buffer; g_run : list (N * nat); g_need : list nat }.

Definition hinit (bufs : list buffer) : hst := mkH bufs [] [].

Definition mark_dirty (b : buffer) : buffer := mkBuf (b_start b) (b_size b) true.
Definition mark_clean (b : buffer) : buffer := mkBuf (b_start b) (b_size b) false.

(** [clear]: false = the code as it is; true = the variant that resets the marks
    when a flush is sent (markAllBuffersClean after sendFlushRequest). *)
Definition hstep_gen (clear : bool) (s : hst) (e : hev) : hst * bool :=
  match e with
  | HAlloc a n => (mkH (h_bufs s ++ [mkBuf a n false]) (g_run s) (g_need s), false)
  | HLaunch k => (mkH (map mark_dirty (h_bufs s)) ((k, length (h_bufs s)) :: g_run s) (g_need s), false)
  | HComplete k =>
    (mkH (h_bufs s) (filter (fun e => negb (fst e =? k)) (g_run s))
         (g_need s ++ map snd (filter (fun e => fst e =? k) (g_run s))), false)
  | HCopy a n =>
    if need_flushing (h_bufs s) a n
    then (mkH (if clear then map mark_clean (h_bufs s) else h_bufs s) (g_run s) [], true)
    else (s, false)
  end.

Definition hstep := hstep_gen false.

Definition hrun_gen (clear : bool) (s : hst) (evs : list hev) : hst :=
  fold_left (fun s e => fst (hstep_gen clear s e)) evs s.
Definition hrun := hrun_gen false.

(** A buffer that a completed, not yet flushed kernel may have written shares a byte with [a, a+n). *)
Definition must_flush (s : hst) (a n : N) : Prop :=
  exists m i b, In m (g_need s) /\ (i < m)%nat /\ nth_error (h_bufs s) i = Some b /\
                0 < b_size b /\ exists x, b_start b <= x < b_start b + b_size b /\ a <= x < a + n.

(** ---- correspondence: observed (flush?, buffer list after the event) ---- *)
Record hobs := mkHObs { ho_flush : bool; ho_bufs : list buffer }.
Record hcase := mkHCase { hc_init : list buffer; hc_trace : list (hev * hobs) }.

Definition buf_eqb (a b : buffer) : bool :=
  (b_start a =? b_start b) && (b_size a =? b_size b) && Bool.eqb (b_dirty a) (b_dirty b).
Fixpoint bufs_eqb (a b : list buffer) : bool :=
  match a, b with
  | [], [] => true
  | x :: a', y :: b' => buf_eqb x y && bufs_eqb a' b'
  | _, _ => false
  end.

Fixpoint hcheck (i : nat) (s : hst) (tr : list (hev * hobs)) : option nat :=
  match tr with
  | [] => None
  | (e, o) :: r =>
    let '(s', f) := hstep s e in
    if Bool.eqb f (ho_flush o) && bufs_eqb (h_bufs s') (ho_bufs o) then hcheck (S i) s' r else Some i
  end.

Fixpoint hmismatches_from (i : nat) (cs : list hcase) : list (nat * nat) :=
  match cs with
  | [] => []
  | c :: r => match hcheck 0 (hinit (hc_init c)) (hc_trace c) with
              | None => hmismatches_from (S i) r
              | Some k => (i, k) :: hmismatches_from (S i) r
              end
  end.
Definition hmismatches := hmismatches_from 0.
