(** The life of one copy command of the default memory-copy middleware after
    processMemCopyH2D/D2HCommand created its requests: a FlushReq per GPU when
    a flush is needed, one MemCopy request per page piece.  The responses come
    back in any order (amd/driver/memorycopy.go: processFlushReturn,
    processMemCopyH2DReturn/D2HReturn, completeMemCopyH2D/D2H,
    rememberIfEmpty / completeEmptyCopies in Tick).
    [fixed = false] is the code before the two repairs (6b55f090: a flush
    response now completes the command when it is the last one; zero-length
    fix: a command without requests is completed at the next tick).
    Definitions only. *)
From Coq Require Import List NArith Bool Arith.
Import ListNotations.
Open Scope N_scope.

Inductive qkind := QFlush | QCopy.

Record ccmd := mkCmd {
  cc_reqs : list (N * qkind);   (* cmd.Reqs: outstanding requests *)
  cc_empty : bool;              (* noted in emptyCopies: completes at the next tick *)
  cc_done : nat;                (* how often the command was completed (dequeued) *)
  cc_crashed : bool;            (* findCommandByReq: panic("cannot find command") *)
  (* ghost *)
  cc_all : list (N * qkind);    (* the requests created *)
  cc_ans : list N;              (* responses processed *)
  cc_ticked : bool
}.

Definition cstart (reqs : list (N * qkind)) : ccmd :=
  mkCmd reqs (match reqs with [] => true | _ => false end) 0 false reqs [] false.

Inductive cev := CRsp (id : N) | CTick.

Definition lookup_req (id : N) (l : list (N * qkind)) : option qkind :=
  match find (fun r => fst r =? id) l with Some r => Some (snd r) | None => None end.
Definition remove_req (id : N) (l : list (N * qkind)) : list (N * qkind) :=
  filter (fun r => negb (fst r =? id)) l.
Definition is_nil {A} (l : list A) : bool := match l with [] => true | _ => false end.

Definition cstep_gen (fixed : bool) (s : ccmd) (e : cev) : ccmd :=
  if cc_crashed s then s else
  match e with
  | CRsp id =>
    match lookup_req id (cc_reqs s) with
    | None => mkCmd (cc_reqs s) (cc_empty s) (cc_done s) true (cc_all s) (cc_ans s) (cc_ticked s)
    | Some k =>
      let rest := remove_req id (cc_reqs s) in
      let tests := match k with QCopy => true | QFlush => fixed end in
      mkCmd rest (cc_empty s) (if tests && is_nil rest then S (cc_done s) else cc_done s) false
            (cc_all s) (cc_ans s ++ [id]) (cc_ticked s)
    end
  | CTick =>
    if fixed && cc_empty s
    then mkCmd (cc_reqs s) false (if is_nil (cc_reqs s) then S (cc_done s) else cc_done s) false
               (cc_all s) (cc_ans s) true
    else mkCmd (cc_reqs s) (cc_empty s) (cc_done s) false (cc_all s) (cc_ans s) true
  end.

Definition cstep := cstep_gen true.
Definition crun_gen (fixed : bool) (s : ccmd) (evs : list cev) : ccmd := fold_left (cstep_gen fixed) evs s.
Definition crun := crun_gen true.

(** Used by the correspondence check: the driver is ticked after the command was
    taken and after every response; [after] = number of responses delivered when
    the command completed (NEVER if it did not). *)
Definition NEVER : N := 999999.
Fixpoint completed_after (s : ccmd) (k : N) (order : list N) : N :=
  if Nat.ltb 0 (cc_done s) then k else
  match order with
  | [] => NEVER
  | id :: r => completed_after (cstep (cstep s (CRsp id)) CTick) (k + 1) r
  end.

Definition mk_reqs (nflush ncopy : nat) : list (N * qkind) :=
  map (fun i => (N.of_nat i, QFlush)) (seq 0 nflush) ++
  map (fun i => (N.of_nat i, QCopy)) (seq nflush ncopy).

Definition expect_after (nflush ncopy : nat) (order : list N) : N :=
  completed_after (cstep (cstart (mk_reqs nflush ncopy)) CTick) 0 order.

(** The global-storage ("magic") middleware (memorycopyglobalstorage.go after
    98dbab99): flushCachesFirst creates one FlushReq per GPU when needFlushing
    says so; its Tick removes answered flushes and performs the storage copy
    (copyH2D / copyD2H, which also dequeue the command) when the last one is
    gone.  Without a flush the copy is done while the command is processed —
    the same state as an empty command of the default middleware after its tick. *)
Definition cstart_magic (nflush : nat) : ccmd :=
  match nflush with
  | O => cstep (cstart []) CTick
  | _ => cstart (mk_reqs nflush 0)
  end.

(** The storage as the command leaves it: touched by the copy exactly when the
    command completed. *)
Definition magic_storage {A} (s : ccmd) (before after : A) : A :=
  if Nat.ltb 0 (cc_done s) then after else before.

(** ** The empty-copy bookkeeping exactly as the middleware codes it

    processMemCopyH2D/D2HCommand end with rememberIfEmpty: the command is put on
    the list emptyCopies when it "waits for no request at all"
    (len(cmd.GetReqs()) == 0 — flush requests count).  Tick starts with
    completeEmptyCopies, which completes (dequeues) EVERY command on that list
    without looking at its requests, and clears the list.  A response is matched
    by findCommandByReq against the commands at the heads of the queues: for a
    command that was dequeued it panics ("cannot find command").
    [by_bytes = false] is the decision of the code; [by_bytes = true] is the
    decision "the copy moves zero bytes" (no COPY request was created), which
    differs exactly for a zero-byte copy that needs a flush. *)
Definition is_copy_req (r : N * qkind) : bool := match snd r with QCopy => true | QFlush => false end.

Definition remember_if_empty (by_bytes : bool) (reqs : list (N * qkind)) : bool :=
  if by_bytes then is_nil (filter is_copy_req reqs) else is_nil reqs.

Definition kstart (by_bytes : bool) (reqs : list (N * qkind)) : ccmd :=
  mkCmd reqs (remember_if_empty by_bytes reqs) 0 false reqs [] false.

Definition kstep (s : ccmd) (e : cev) : ccmd :=
  if cc_crashed s then s else
  match e with
  | CRsp id =>
    match (if Nat.ltb 0 (cc_done s) then None else lookup_req id (cc_reqs s)) with
    | None => mkCmd (cc_reqs s) (cc_empty s) (cc_done s) true (cc_all s) (cc_ans s) (cc_ticked s)
    | Some _ =>
      let rest := remove_req id (cc_reqs s) in
      mkCmd rest (cc_empty s) (if is_nil rest then S (cc_done s) else cc_done s) false
            (cc_all s) (cc_ans s ++ [id]) (cc_ticked s)
    end
  | CTick =>
    if cc_empty s
    then mkCmd (cc_reqs s) false (S (cc_done s)) false (cc_all s) (cc_ans s) true
    else mkCmd (cc_reqs s) (cc_empty s) (cc_done s) false (cc_all s) (cc_ans s) true
  end.

Definition krun (s : ccmd) (evs : list cev) : ccmd := fold_left kstep evs s.

(** A zero-byte copy: no copy request; [nflush] flush requests (0 when the
    address meets no dirty buffer, one per GPU otherwise). *)
Definition zero_byte_reqs (nflush : nat) : list (N * qkind) := mk_reqs nflush 0.
