(** Order of the migration handshake: invariant of drv/Handshake.v over every
    sequence of environment events in which command processors only answer
    commands the driver has actually sent. *)
From Coq Require Import ZifyN ZifyNat ZifyBool.
From VDrv Require Import Handshake.
From RecordUpdate Require Import RecordSet.
Import RecordSetNotations.
Open Scope N_scope.

Definition rsp_eqb (a b : rsp) : bool :=
  match a, b with
  | RDrain, RDrain | RShoot, RShoot | RMig, RMig | RRestart, RRestart
  | RRdmaRestart, RRdmaRestart | ROther, ROther => true
  | _, _ => false
  end.
Lemma rsp_eqb_eq a b : rsp_eqb a b = true <-> a = b.
Proof. destruct a, b; cbn; split; congruence. Qed.

Definition cnt (r : rsp) (l : list rsp) : nat := length (filter (rsp_eqb r) l).
Arguments cnt : simpl never.
Lemma cnt_app r l1 l2 : cnt r (l1 ++ l2) = (cnt r l1 + cnt r l2)%nat.
Proof. unfold cnt. now rewrite filter_app, app_length. Qed.
Lemma cnt_cons r x l : cnt r (x :: l) = ((if rsp_eqb r x then 1 else 0) + cnt r l)%nat.
Proof. unfold cnt. cbn [filter]. destruct (rsp_eqb r x); reflexivity. Qed.
Lemma cnt_nil r : cnt r [] = 0%nat.
Proof. reflexivity. Qed.
Lemma cnt_repeat r x k : cnt r (repeat x k) = if rsp_eqb r x then k else 0%nat.
Proof.
  induction k as [|k IH]; cbn [repeat]; [destruct (rsp_eqb r x); reflexivity|].
  rewrite cnt_cons, IH. destruct (rsp_eqb r x); lia.
Qed.

(** the response that answers a command *)
Definition kindof (c : cmd) : rsp :=
  match c with
  | CDrain _ => RDrain | CShoot _ _ _ => RShoot | CMig _ _ _ _ => RMig
  | CRestart _ => RRestart | CRdmaRestart _ => RRdmaRestart
  end.
Definition sentk (r : rsp) (l : list cmd) : nat := cnt r (map kindof l).
Lemma sentk_app r l1 l2 : sentk r (l1 ++ l2) = (sentk r l1 + sentk r l2)%nat.
Proof. unfold sentk. now rewrite map_app, cnt_app. Qed.

Lemma kinds_bD n : map kindof (bD n) = repeat RDrain (length (bD n)).
Proof. unfold bD. induction (gpus n); cbn; congruence. Qed.
Lemma kinds_bRR n : map kindof (bRR n) = repeat RRdmaRestart (length (bRR n)).
Proof. unfold bRR. induction (gpus n); cbn; congruence. Qed.
Lemma kinds_bS n q : map kindof (bS n q) = repeat RShoot (length (bS n q)).
Proof. unfold bS. induction (mr_accessing q); cbn; congruence. Qed.
Lemma kinds_bR q : map kindof (bR q) = repeat RRestart (length (bR q)).
Proof. unfold bR. induction (mr_accessing q); cbn; congruence. Qed.
Lemma kinds_bM n q : map kindof (bM n q) = repeat RMig (length (bM n q)).
Proof.
  unfold bM, mig_of. induction (ordered_groups n q) as [|gp l IH]; cbn [flat_map]; [reflexivity|].
  rewrite map_app, app_length, repeat_app, IH. f_equal.
  induction (snd gp); cbn; congruence.
Qed.

Lemma repeat_prefix {T} (a : T) : forall (l1 l2 : list T) k,
  l1 ++ l2 = repeat a k -> l1 = repeat a (length l1) /\ l2 = repeat a (length l2).
Proof.
  induction l1 as [|x l1 IH]; intros l2 k E; cbn in *.
  - split; auto. rewrite E, repeat_length. reflexivity.
  - destruct k; [discriminate|]. cbn in E. inversion E; subst.
    destruct (IH _ _ H1) as [E1 E2]. split; [f_equal; auto|auto].
Qed.

Lemma len_bD n : length (bD n) = N.to_nat n.
Proof. unfold bD, gpus. now rewrite !map_length, seq_length. Qed.
Lemma len_bRR n : length (bRR n) = N.to_nat n.
Proof. unfold bRR, gpus. now rewrite !map_length, seq_length. Qed.
Lemma len_bS n q : length (bS n q) = length (mr_accessing q).
Proof. unfold bS. now rewrite map_length. Qed.
Lemma len_bR q : length (bR q) = length (mr_accessing q).
Proof. unfold bR. now rewrite map_length. Qed.

(** ** The environment: responses only for commands that were sent *)
Definition wfq (n : N) (q : mreq) : Prop :=
  in_range n (mr_host q) = true /\ forallb (in_range n) (mr_accessing q) = true.

Definition valid_hev (s : hs) (e : hev) : Prop :=
  match e with
  | HDeliverGPU r =>
    r <> ROther /\ h_cur s <> None /\
    (cnt r (g_ack s ++ h_gpu_in s) < sentk r (g_sent s))%nat
  | HDeliverMMU q => wfq (h_ngpu s) q
  | _ => True
  end.
Fixpoint hvalid (s : hs) (evs : list hev) : Prop :=
  match evs with
  | [] => True
  | e :: r => valid_hev s e /\ hvalid (fst (hstep s e)) r
  end.

(** ** Phases of one request *)
Definition A (s : hs) (r : rsp) : N := N.of_nat (cnt r (g_ack s)).
Definition LN {T} (l : list T) : N := N.of_nat (length l).

Inductive Phase (n : N) (q : mreq) (s : hs) : Prop :=
| P1 pre : g_sent s = pre -> pre ++ h_tosend s = bD n -> h_migq s = [] -> h_one s = false ->
    h_ndrain s = n - A s RDrain -> h_nshoot s = 0 -> h_nmig s = 0 -> h_nrestart s = 0 -> h_nrdma s = 0 ->
    Phase n q s
| P2 pre : g_sent s = bD n ++ pre -> pre ++ h_tosend s = bS n q -> h_migq s = [] -> h_one s = false ->
    A s RDrain = n -> h_ndrain s = 0 -> h_nshoot s = LN (mr_accessing q) - A s RShoot ->
    h_nmig s = 0 -> h_nrestart s = 0 -> h_nrdma s = 0 -> Phase n q s
| P3 pre : g_sent s = bD n ++ bS n q ++ pre -> h_tosend s = [] -> pre ++ h_migq s = bM n q ->
    A s RDrain = n -> A s RShoot = LN (mr_accessing q) -> h_ndrain s = 0 -> h_nshoot s = 0 ->
    h_nmig s = LN (bM n q) - A s RMig ->
    LN pre = A s RMig + (if h_one s then 1 else 0) ->
    h_nrestart s = 0 -> h_nrdma s = 0 -> Phase n q s
| P4 pre : g_sent s = bD n ++ bS n q ++ bM n q ++ pre -> pre ++ h_tosend s = bR q -> h_migq s = [] -> h_one s = false ->
    A s RDrain = n -> A s RShoot = LN (mr_accessing q) -> A s RMig = LN (bM n q) ->
    h_ndrain s = 0 -> h_nshoot s = 0 -> h_nmig s = 0 ->
    h_nrestart s = LN (mr_accessing q) - A s RRestart -> h_nrdma s = 0 -> Phase n q s
| P5 pre : g_sent s = bD n ++ bS n q ++ bM n q ++ bR q ++ pre -> pre ++ h_tosend s = bRR n -> h_migq s = [] -> h_one s = false ->
    A s RDrain = n -> A s RShoot = LN (mr_accessing q) -> A s RMig = LN (bM n q) -> A s RRestart = LN (mr_accessing q) ->
    h_ndrain s = 0 -> h_nshoot s = 0 -> h_nmig s = 0 -> h_nrestart s = 0 ->
    h_nrdma s = n - A s RRdmaRestart -> Phase n q s.

Definition ackle (s : hs) : Prop :=
  Forall (fun r => r <> ROther) (h_gpu_in s) /\
  forall r, (cnt r (g_ack s ++ h_gpu_in s) <= sentk r (g_sent s))%nat.

Record HI (n : N) (s : hs) : Prop := {
  hi_cr : h_crashed s = false;
  hi_n : h_ngpu s = n;
  hi_mmu : Forall (wfq n) (h_mmu_in s);
  hi_cur : match h_cur s with
           | None => h_handling s = false /\ h_tosend s = [] /\ h_migq s = [] /\ h_one s = false /\
                     h_ndrain s = 0 /\ h_nshoot s = 0 /\ h_nmig s = 0 /\ h_nrestart s = 0 /\ h_nrdma s = 0 /\
                     h_gpu_in s = []
           | Some q => h_handling s = true /\ wfq n q /\ ackle s /\ Phase n q s
           end
}.

Lemma hi_init n : HI n (hs_init n).
Proof. constructor; cbn; auto. repeat split; auto. Qed.

(** ** Counting commands of one kind in the blocks *)
Lemma sentk_block r B K : map kindof B = repeat K (length B) ->
  sentk r B = if rsp_eqb r K then length B else 0%nat.
Proof. intros E. unfold sentk. rewrite E. apply cnt_repeat. Qed.

Lemma sentk_prefix r pre rest B K : pre ++ rest = B -> map kindof B = repeat K (length B) ->
  sentk r pre = (if rsp_eqb r K then length pre else 0%nat) /\ (length pre <= length B)%nat.
Proof.
  intros E EB. subst B. rewrite map_app in EB. apply repeat_prefix in EB. destruct EB as [E1 _].
  rewrite map_length in E1. split; [apply sentk_block; rewrite E1 at 1; reflexivity|].
  rewrite app_length. lia.
Qed.

Lemma prefix_full {T} (pre rest B : list T) : pre ++ rest = B -> length pre = length B -> rest = [] /\ pre = B.
Proof.
  intros E L. subst B. rewrite app_length in L. assert (length rest = 0%nat) by lia.
  apply length_zero_iff_nil in H. subst. rewrite app_nil_r. auto.
Qed.

Lemma sk_D r n : sentk r (bD n) = if rsp_eqb r RDrain then length (bD n) else 0%nat.
Proof. apply sentk_block, kinds_bD. Qed.
Lemma sk_S r n q : sentk r (bS n q) = if rsp_eqb r RShoot then length (bS n q) else 0%nat.
Proof. apply sentk_block, kinds_bS. Qed.
Lemma sk_M r n q : sentk r (bM n q) = if rsp_eqb r RMig then length (bM n q) else 0%nat.
Proof. apply sentk_block, kinds_bM. Qed.
Lemma sk_R r q : sentk r (bR q) = if rsp_eqb r RRestart then length (bR q) else 0%nat.
Proof. apply sentk_block, kinds_bR. Qed.

(** ** Stages of the tick *)
Ltac hi_destruct H := destruct H as [Hcr Hn Hmmu Hcur].

Lemma ackle_sent s c : ackle s -> forall s', g_ack s' = g_ack s -> h_gpu_in s' = h_gpu_in s ->
  g_sent s' = g_sent s ++ [c] -> ackle s'.
Proof.
  intros [F L] s' E1 E2 E3. split; [rewrite E2; auto|]. intros r. rewrite E1, E2, E3, sentk_app.
  specialize (L r). lia.
Qed.

Lemma st_send_to_gpus n s : HI n s -> HI n (send_to_gpus s).
Proof.
  intros H. hi_destruct H. unfold send_to_gpus.
  destruct (h_tosend s) as [|c r] eqn:Et; [constructor; auto; rewrite ?Et; auto|].
  constructor; cbn; auto.
  destruct (h_cur s) as [q|]; [|destruct Hcur as (_ & E & _); try rewrite Et in E; discriminate].
  destruct Hcur as (Hh & Hw & Ha & Hp). split; auto. split; auto. split.
  { eapply ackle_sent; [exact Ha|reflexivity|reflexivity|reflexivity]. }
  destruct Hp as [pre E1 E2|pre E1 E2|pre E1 E2|pre E1 E2|pre E1 E2]; rewrite ?Et in *.
  - eapply (P1 _ _ _ (pre ++ [c])); cbn; auto; [rewrite E1; auto|rewrite <- app_assoc; auto].
  - eapply (P2 _ _ _ (pre ++ [c])); cbn; auto; [rewrite E1, <- app_assoc; auto|rewrite <- app_assoc; auto].
  - discriminate.
  - eapply (P4 _ _ _ (pre ++ [c])); cbn; auto; [rewrite E1, <- !app_assoc; auto|rewrite <- app_assoc; auto].
  - eapply (P5 _ _ _ (pre ++ [c])); cbn; auto; [rewrite E1, <- !app_assoc; auto|rewrite <- app_assoc; auto].
Qed.

(** fields the invariant does not look at: toSendToMMU and the two out buffers *)
Definition same_core (s s' : hs) : Prop :=
  h_ngpu s' = h_ngpu s /\ h_cur s' = h_cur s /\ h_handling s' = h_handling s /\ h_tosend s' = h_tosend s /\
  h_migq s' = h_migq s /\ h_one s' = h_one s /\ h_ndrain s' = h_ndrain s /\ h_nshoot s' = h_nshoot s /\
  h_nmig s' = h_nmig s /\ h_nrestart s' = h_nrestart s /\ h_nrdma s' = h_nrdma s /\
  h_gpu_in s' = h_gpu_in s /\ h_mmu_in s' = h_mmu_in s /\ h_crashed s' = h_crashed s /\
  g_sent s' = g_sent s /\ g_ack s' = g_ack s.

Lemma HI_frame n s s' : same_core s s' -> HI n s -> HI n s'.
Proof.
  intros (E1 & E2 & E3 & E4 & E5 & E6 & E7 & E8 & E9 & E10 & E11 & E12 & E13 & E14 & E15 & E16) H.
  hi_destruct H. constructor; try congruence. rewrite E2.
  destruct (h_cur s) as [q|]; [|rewrite E3, E4, E5, E6, E7, E8, E9, E10, E11, E12; auto].
  destruct Hcur as (Hh & Hw & Ha & Hp). split; [congruence|]. split; auto. split.
  - unfold ackle in *. rewrite E12, E15, E16. auto.
  - unfold A in *. destruct Hp as [pre|pre|pre|pre|pre];
      [eapply P1|eapply P2|eapply P3|eapply P4|eapply P5]; unfold A; rewrite ?E4, ?E5, ?E6, ?E7, ?E8, ?E9, ?E10, ?E11, ?E15, ?E16; eauto.
Qed.

Lemma st_send_to_mmu n s : HI n s -> HI n (send_to_mmu s).
Proof.
  intros H. unfold send_to_mmu.
  destruct (h_tommu s); auto.
  destruct (Nat.ltb (length (h_mmu_out s)) 1); auto.
  eapply HI_frame; [|exact H]. repeat split.
Qed.

Lemma st_send_mig n s : HI n s -> HI n (send_mig s).
Proof.
  intros H. hi_destruct H. unfold send_mig.
  destruct (h_migq s) as [|c r] eqn:Et; [constructor; auto; rewrite ?Et; auto|].
  destruct (h_one s) eqn:Eo; [constructor; auto; rewrite ?Et, ?Eo; auto|].
  constructor; cbn; auto.
  destruct (h_cur s) as [q|]; [|destruct Hcur as (_ & _ & E & _); try rewrite Et in E; discriminate].
  destruct Hcur as (Hh & Hw & Ha & Hp). split; auto. split; auto. split.
  { eapply ackle_sent; [exact Ha|reflexivity|reflexivity|reflexivity]. }
  destruct Hp as [pre E1 E2 E3|pre E1 E2 E3|pre E1 E2 E3 E4 E5 E6 E7 E8 E9|pre E1 E2 E3|pre E1 E2 E3];
    rewrite ?Et, ?Eo in *; try discriminate.
  eapply (P3 _ _ _ (pre ++ [c])); cbn; auto.
  - rewrite E1, <- !app_assoc. auto.
  - rewrite <- app_assoc. auto.
  - unfold LN, A in *. cbn. rewrite app_length. cbn. lia.
Qed.

Lemma rsp_eqb_refl r : rsp_eqb r r = true.
Proof. destruct r; reflexivity. Qed.

Lemma all_zero_nil l : Forall (fun r => r <> ROther) l -> (forall r, cnt r l = 0%nat) -> l = [].
Proof.
  destruct l as [|x l]; auto. intros _ H. specialize (H x). rewrite cnt_cons, rsp_eqb_refl in H. lia.
Qed.

Ltac Asimp := unfold A, LN in *; cbn [g_ack h_gpu_in h_ndrain h_nshoot h_nmig h_nrestart h_nrdma h_one h_tosend h_migq g_sent
                                     set eta_hs] in *;
  repeat rewrite ?cnt_app, ?cnt_cons, ?cnt_nil in *; cbn [rsp_eqb] in *.

Lemma st_process_return n s : HI n s -> HI n (process_return s).
Proof.
  intros H. hi_destruct H. unfold process_return.
  destruct (h_gpu_in s) as [|r rest] eqn:Eg; [constructor; auto; rewrite ?Eg; auto|].
  destruct (h_cur s) as [q|] eqn:Ec.
  2:{ destruct Hcur as (_ & _ & _ & _ & _ & _ & _ & _ & _ & E). discriminate. }
  destruct Hcur as (Hh & Hw & [HF HL] & Hp). rewrite Eg in HF, HL.
  assert (Hr : r <> ROther) by (inversion HF; auto).
  assert (HF' : Forall (fun r => r <> ROther) rest) by (inversion HF; auto).
  pose proof (HL r) as Lr. rewrite cnt_app, cnt_cons, rsp_eqb_refl in Lr.
  assert (Hack1 : forall r', (cnt r' ((g_ack s ++ [r]) ++ rest) <= sentk r' (g_sent s))%nat).
  { intros r'. specialize (HL r'). rewrite !cnt_app, !cnt_cons, cnt_nil in *. lia. }
  destruct Hw as [Hw1 Hw2].
  destruct Hp as [pre E1 E2 E3 E4 E5 E6 E7 E8 E9
                 |pre E1 E2 E3 E4 E5 E6 E7 E8 E9 E10
                 |pre E1 E2 E3 E4 E5 E6 E7 E8 E9 E10 E11
                 |pre E1 E2 E3 E4 E5 E6 E7 E8 E9 E10 E11 E12
                 |pre E1 E2 E3 E4 E5 E6 E7 E8 E9 E10 E11 E12 E13].
  - (* draining *)
    destruct (sentk_prefix r pre _ _ _ E2 (kinds_bD n)) as [Sp Lp]. rewrite len_bD in Lp.
    rewrite E1, Sp in Lr.
    assert (Z1 : forall r', r' <> RDrain -> cnt r' (g_ack s) = 0%nat).
    { intros r' Hn'. specialize (HL r'). rewrite E1 in HL.
      destruct (sentk_prefix r' pre _ _ _ E2 (kinds_bD n)) as [Sp' _]. rewrite Sp', cnt_app in HL.
      destruct r'; cbn in HL; try lia; congruence. }
    destruct r; cbn [rsp_eqb] in Lr; try lia; try congruence.
    cbn match. cbv zeta.
    destruct (h_ndrain s - 1 =? 0) eqn:Ez.
    + apply N.eqb_eq in Ez.
      assert (Hfull : length pre = length (bD n)) by (rewrite len_bD; Asimp; lia).
      destruct (prefix_full _ _ _ E2 Hfull) as [Et Ep].
      unfold shoot_reqs. cbn [h_ngpu set eta_hs]. rewrite Hn, Hw2.
      constructor; cbn; rewrite ?Hn, ?Ec; auto.
      split; auto. split; [split; auto|]. split; [split; auto|].
      eapply (P2 _ _ _ []); cbn; auto.
      * rewrite E1, Ep, app_nil_r. reflexivity.
      * rewrite Et. reflexivity.
      * Asimp. lia.
      * pose proof (Z1 RShoot ltac:(discriminate)). Asimp. lia.
    + apply N.eqb_neq in Ez.
      constructor; cbn; rewrite ?Hn, ?Ec; auto.
      split; auto. split; [split; auto|]. split; [split; auto|].
      eapply (P1 _ _ _ pre); cbn; auto. Asimp. lia.
  - (* shooting down *)
    destruct (sentk_prefix r pre _ _ _ E2 (kinds_bS n q)) as [Sp Lp]. rewrite len_bS in Lp.
    rewrite E1, sentk_app, sk_D, len_bD, Sp in Lr.
    assert (Z1 : forall r', r' <> RDrain -> r' <> RShoot -> cnt r' (g_ack s) = 0%nat).
    { intros r' Hn1 Hn2. specialize (HL r'). rewrite E1, sentk_app, sk_D in HL.
      destruct (sentk_prefix r' pre _ _ _ E2 (kinds_bS n q)) as [Sp' _]. rewrite Sp', cnt_app in HL.
      destruct r'; cbn in HL; try lia; congruence. }
    destruct r; cbn [rsp_eqb] in Lr; try lia; try congruence.
    { exfalso. Asimp. lia. }
    cbn match. cbv zeta.
    destruct (h_nshoot s - 1 =? 0) eqn:Ez.
    + apply N.eqb_eq in Ez.
      assert (Hfull : length pre = length (bS n q)) by (rewrite len_bS; Asimp; lia).
      destruct (prefix_full _ _ _ E2 Hfull) as [Et Ep].
      unfold page_reqs. cbn [h_ngpu set eta_hs]. rewrite Hn, Hw1.
      constructor; cbn; rewrite ?Hn, ?Ec; auto.
      split; auto. split; [split; auto|]. split; [split; auto|].
      eapply (P3 _ _ _ []); cbn; auto.
      * rewrite E1, Ep, app_nil_r. reflexivity.
      * rewrite E3. reflexivity.
      * Asimp. lia.
      * Asimp. lia.
      * pose proof (Z1 RMig ltac:(discriminate) ltac:(discriminate)). rewrite E8. Asimp. lia.
      * pose proof (Z1 RMig ltac:(discriminate) ltac:(discriminate)). rewrite E4. Asimp. lia.
    + apply N.eqb_neq in Ez.
      constructor; cbn; rewrite ?Hn, ?Ec; auto.
      split; auto. split; [split; auto|]. split; [split; auto|].
      eapply (P2 _ _ _ pre); cbn; auto; Asimp; lia.
  - (* migrating *)
    destruct (sentk_prefix r pre _ _ _ E3 (kinds_bM n q)) as [Sp Lp].
    rewrite E1, !sentk_app, sk_D, sk_S, len_bD, len_bS, Sp in Lr.
    assert (Z1 : forall r', r' <> RDrain -> r' <> RShoot -> r' <> RMig -> cnt r' (g_ack s) = 0%nat).
    { intros r' Hn1 Hn2 Hn3. specialize (HL r'). rewrite E1, !sentk_app, sk_D, sk_S in HL.
      destruct (sentk_prefix r' pre _ _ _ E3 (kinds_bM n q)) as [Sp' _]. rewrite Sp', cnt_app in HL.
      destruct r'; cbn in HL; try lia; congruence. }
    destruct r; cbn [rsp_eqb] in Lr; try lia; try congruence.
    { exfalso. Asimp. lia. }
    { exfalso. Asimp. lia. }
    cbn match. cbv zeta.
    assert (Hone : h_one s = true) by (destruct (h_one s); auto; exfalso; Asimp; lia).
    rewrite Hone in E9.
    destruct (h_nmig s - 1 =? 0) eqn:Ez.
    + apply N.eqb_eq in Ez.
      assert (Hfull : length pre = length (bM n q)) by (Asimp; lia).
      destruct (prefix_full _ _ _ E3 Hfull) as [Et Ep].
      unfold restart_and_answer.
      constructor; cbn; rewrite ?Hn, ?Ec; auto.
      split; auto. split; [split; auto|]. split; [split; auto|].
      eapply (P4 _ _ _ []); cbn; auto.
      * rewrite E1, Ep, app_nil_r. reflexivity.
      * rewrite E2. reflexivity.
      * Asimp. lia.
      * Asimp. lia.
      * Asimp. lia.
      * pose proof (Z1 RRestart ltac:(discriminate) ltac:(discriminate) ltac:(discriminate)). rewrite E10. Asimp. lia.
    + apply N.eqb_neq in Ez.
      constructor; cbn; rewrite ?Hn, ?Ec; auto.
      split; auto. split; [split; auto|]. split; [split; auto|].
      eapply (P3 _ _ _ pre); cbn; auto; Asimp; lia.
  - (* restarting the GPUs *)
    destruct (sentk_prefix r pre _ _ _ E2 (kinds_bR q)) as [Sp Lp]. rewrite len_bR in Lp.
    rewrite E1, !sentk_app, sk_D, sk_S, sk_M, len_bD, len_bS, Sp in Lr.
    assert (Z1 : cnt RRdmaRestart (g_ack s) = 0%nat).
    { specialize (HL RRdmaRestart). rewrite E1, !sentk_app, sk_D, sk_S, sk_M in HL.
      destruct (sentk_prefix RRdmaRestart pre _ _ _ E2 (kinds_bR q)) as [Sp' _]. rewrite Sp', cnt_app in HL.
      cbn in HL. lia. }
    destruct r; cbn [rsp_eqb] in Lr; try lia; try congruence.
    { exfalso. Asimp. lia. }
    { exfalso. Asimp. lia. }
    { exfalso. Asimp. lia. }
    cbn match. cbv zeta.
    destruct (h_nrestart s - 1 =? 0) eqn:Ez.
    + apply N.eqb_eq in Ez.
      assert (Hfull : length pre = length (bR q)) by (rewrite len_bR; Asimp; lia).
      destruct (prefix_full _ _ _ E2 Hfull) as [Et Ep].
      constructor; cbn; rewrite ?Hn, ?Ec; auto.
      split; auto. split; [split; auto|]. split; [split; auto|].
      eapply (P5 _ _ _ []); cbn; auto.
      * rewrite E1, Ep, app_nil_r. reflexivity.
      * rewrite Et. reflexivity.
      * Asimp. lia.
      * Asimp. lia.
      * Asimp. lia.
      * Asimp. lia.
      * rewrite E12. Asimp. lia.
    + apply N.eqb_neq in Ez.
      constructor; cbn; rewrite ?Hn, ?Ec; auto.
      split; auto. split; [split; auto|]. split; [split; auto|].
      eapply (P4 _ _ _ pre); cbn; auto; Asimp; lia.
  - (* restarting the RDMA engines *)
    destruct (sentk_prefix r pre _ _ _ E2 (kinds_bRR n)) as [Sp Lp]. rewrite len_bRR in Lp.
    rewrite E1, !sentk_app, sk_D, sk_S, sk_M, sk_R, len_bD, len_bS, len_bR, Sp in Lr.
    destruct r; cbn [rsp_eqb] in Lr; try lia; try congruence.
    { exfalso. Asimp. lia. }
    { exfalso. Asimp. lia. }
    { exfalso. Asimp. lia. }
    { exfalso. Asimp. lia. }
    cbn match. cbv zeta.
    destruct (h_nrdma s - 1 =? 0) eqn:Ez.
    + apply N.eqb_eq in Ez.
      assert (Hfull : length pre = length (bRR n)) by (rewrite len_bRR; Asimp; lia).
      destruct (prefix_full _ _ _ E2 Hfull) as [Et Ep].
      constructor; cbn; rewrite ?Hn; auto.
      repeat split; auto.
      apply all_zero_nil; auto. intros r'.
      specialize (Hack1 r'). rewrite E1, Ep, !sentk_app, sk_D, sk_S, sk_M, sk_R, len_bD, len_bS, len_bR in Hack1.
      rewrite (sentk_block r' (bRR n) RRdmaRestart (kinds_bRR n)), len_bRR in Hack1.
      rewrite !cnt_app, cnt_cons, cnt_nil in Hack1.
      destruct r'; cbn [rsp_eqb] in Hack1; Asimp; try lia.
    + apply N.eqb_neq in Ez.
      constructor; cbn; rewrite ?Hn, ?Ec; auto.
      split; auto. split; [split; auto|]. split; [split; auto|].
      eapply (P5 _ _ _ pre); cbn; auto; Asimp; lia.
Qed.

Lemma st_parse_from_mmu n s : HI n s -> HI n (parse_from_mmu s).
Proof.
  intros H. pose proof H as H0. hi_destruct H. unfold parse_from_mmu.
  destruct (h_handling s) eqn:Eh; [exact H0|].
  destruct (h_mmu_in s) as [|q rest] eqn:Em; [exact H0|].
  destruct (h_cur s) as [q0|]; [destruct Hcur as (E & _); congruence|]. clear H0.
  destruct Hcur as (_ & Et & Emq & Eo & E1 & E2 & E3 & E4 & E5 & Eg).
  inversion Hmmu; subst.
  constructor; cbn; auto.
  split; auto. split; auto. split.
  - split; cbn; [rewrite Eg; constructor|]. intros r. rewrite Eg. unfold sentk. cbn [app map]. rewrite cnt_nil. lia.
  - eapply (P1 _ _ _ []); cbn; auto.
    + rewrite Et. reflexivity.
    + unfold A. cbn. rewrite cnt_nil. lia.
Qed.

Lemma htick_inv n s : HI n s -> HI n (htick s).
Proof.
  intros H. unfold htick, seq2.
  pose proof (st_send_to_gpus n s H) as H1. rewrite (hi_cr _ _ H1).
  pose proof (st_send_to_mmu n _ H1) as H2. rewrite (hi_cr _ _ H2).
  pose proof (st_send_mig n _ H2) as H3. rewrite (hi_cr _ _ H3).
  pose proof (st_process_return n _ H3) as H4. rewrite (hi_cr _ _ H4).
  apply st_parse_from_mmu. exact H4.
Qed.

Lemma hstep_inv n s e : HI n s -> valid_hev s e -> HI n (fst (hstep s e)).
Proof.
  intros H Hv. unfold hstep. rewrite (hi_cr _ _ H).
  destruct e as [|q| | |r]; cbn [fst].
  - apply htick_inv; auto.
  - destruct (Nat.ltb (length (h_mmu_in s)) 1); [|exact H].
    cbn [fst]. hi_destruct H. cbn in Hv. rewrite Hn in Hv. constructor; cbn; auto.
    + apply Forall_app; split; auto.
    + destruct (h_cur s) as [q0|]; auto. destruct Hcur as (Hh & Hw & Ha & Hp). repeat split; auto; try apply Ha; try apply Hw.
      destruct Hp as [pre|pre|pre|pre|pre];
        [eapply P1|eapply P2|eapply P3|eapply P4|eapply P5]; cbn; eauto.
  - destruct (h_mmu_out s); [exact H|]. cbn [fst]. eapply HI_frame; [|exact H]. repeat split.
  - destruct (h_gpu_out s); [exact H|]. cbn [fst]. eapply HI_frame; [|exact H]. repeat split.
  - cbn in Hv. destruct Hv as (Hr & Hc & Hlt). hi_destruct H. constructor; cbn; auto.
    destruct (h_cur s) as [q|]; [|congruence].
    destruct Hcur as (Hh & Hw & [HF HL] & Hp). split; auto. split; auto. split.
    + split; cbn; [apply Forall_app; split; auto|]. intros r'. specialize (HL r').
      rewrite !cnt_app, cnt_cons, cnt_nil in *. destruct (rsp_eqb r' r) eqn:E; [|lia].
      apply rsp_eqb_eq in E. subst r'. lia.
    + destruct Hp as [pre|pre|pre|pre|pre];
        [eapply P1|eapply P2|eapply P3|eapply P4|eapply P5]; cbn; eauto.
Qed.

Lemma hrun_inv n evs : forall s, HI n s -> hvalid s evs -> HI n (hrun s evs).
Proof.
  induction evs as [|e evs IH]; intros s H Hv; [exact H|].
  destruct Hv as [Hv1 Hv2]. cbn. apply IH; auto. apply hstep_inv; auto.
Qed.

(** ** handshake_order *)

(** everything sent for the current request so far, followed by what is
    queued, is the five blocks in order; each block is opened only when the
    previous one has been acknowledged completely *)
Theorem handshake_order : forall n evs,
  hvalid (hs_init n) evs ->
  let s := hrun (hs_init n) evs in
  h_crashed s = false /\
  match h_cur s with
  | None => h_tosend s = [] /\ h_migq s = [] /\ h_gpu_in s = []
  | Some q =>
    let full := bD n ++ bS n q ++ bM n q ++ bR q ++ bRR n in
    (exists rest, (g_sent s ++ h_tosend s ++ h_migq s) ++ rest = full) /\
    (* a shootdown is sent only after every drain acknowledgement *)
    ((0 < sentk RShoot (g_sent s))%nat -> A s RDrain = n) /\
    (* a page request only after every drain and every shootdown acknowledgement *)
    ((0 < sentk RMig (g_sent s))%nat -> A s RDrain = n /\ A s RShoot = LN (mr_accessing q)) /\
    (* one page at a time *)
    (N.of_nat (sentk RMig (g_sent s)) <= A s RMig + 1) /\
    (* GPUs are restarted only after every page has been migrated *)
    ((0 < sentk RRestart (g_sent s))%nat -> A s RMig = LN (bM n q) /\ sentk RMig (g_sent s) = length (bM n q)) /\
    (* RDMA engines are restarted only after every GPU restart acknowledgement *)
    ((0 < sentk RRdmaRestart (g_sent s))%nat -> A s RRestart = LN (mr_accessing q))
  end.
Proof.
  intros n evs Hv s. pose proof (hrun_inv n evs _ (hi_init n) Hv) as H. fold s in H.
  hi_destruct H. split; auto.
  destruct (h_cur s) as [q|]; [|tauto].
  destruct Hcur as (Hh & Hw & Ha & Hp). cbv zeta.
  destruct Hp as [pre E1 E2 E3 E4 E5 E6 E7 E8 E9
                 |pre E1 E2 E3 E4 E5 E6 E7 E8 E9 E10
                 |pre E1 E2 E3 E4 E5 E6 E7 E8 E9 E10 E11
                 |pre E1 E2 E3 E4 E5 E6 E7 E8 E9 E10 E11 E12
                 |pre E1 E2 E3 E4 E5 E6 E7 E8 E9 E10 E11 E12 E13].
  - destruct (sentk_prefix RShoot pre _ _ _ E2 (kinds_bD n)) as [S1 _].
    destruct (sentk_prefix RMig pre _ _ _ E2 (kinds_bD n)) as [S2 _].
    destruct (sentk_prefix RRestart pre _ _ _ E2 (kinds_bD n)) as [S3 _].
    destruct (sentk_prefix RRdmaRestart pre _ _ _ E2 (kinds_bD n)) as [S4 _].
    rewrite E1, E3, S1, S2, S3, S4. cbn [rsp_eqb]. repeat split; try lia.
    exists (bS n q ++ bM n q ++ bR q ++ bRR n). rewrite app_nil_r, E2. reflexivity.
  - destruct (sentk_prefix RShoot pre _ _ _ E2 (kinds_bS n q)) as [S1 _].
    destruct (sentk_prefix RMig pre _ _ _ E2 (kinds_bS n q)) as [S2 _].
    destruct (sentk_prefix RRestart pre _ _ _ E2 (kinds_bS n q)) as [S3 _].
    destruct (sentk_prefix RRdmaRestart pre _ _ _ E2 (kinds_bS n q)) as [S4 _].
    rewrite E1, E3, !sentk_app, !sk_D, S1, S2, S3, S4. cbn [rsp_eqb]. repeat split; auto; try lia.
    exists (bM n q ++ bR q ++ bRR n). rewrite app_nil_r, <- !app_assoc, (app_assoc pre), E2. reflexivity.
  - destruct (sentk_prefix RShoot pre _ _ _ E3 (kinds_bM n q)) as [S1 _].
    destruct (sentk_prefix RMig pre _ _ _ E3 (kinds_bM n q)) as [S2 L2].
    destruct (sentk_prefix RRestart pre _ _ _ E3 (kinds_bM n q)) as [S3 _].
    destruct (sentk_prefix RRdmaRestart pre _ _ _ E3 (kinds_bM n q)) as [S4 _].
    rewrite E1, E2, !sentk_app, !sk_D, !sk_S, S1, S2, S3, S4. cbn [rsp_eqb app]. repeat split; auto; try lia.
    + exists (bR q ++ bRR n). rewrite <- !app_assoc, (app_assoc pre), E3. reflexivity.
    + unfold LN in E9. destruct (h_one s); lia.
  - destruct (sentk_prefix RShoot pre _ _ _ E2 (kinds_bR q)) as [S1 _].
    destruct (sentk_prefix RMig pre _ _ _ E2 (kinds_bR q)) as [S2 _].
    destruct (sentk_prefix RRestart pre _ _ _ E2 (kinds_bR q)) as [S3 _].
    destruct (sentk_prefix RRdmaRestart pre _ _ _ E2 (kinds_bR q)) as [S4 _].
    rewrite E1, E3, !sentk_app, !sk_D, !sk_S, !sk_M, S1, S2, S3, S4. cbn [rsp_eqb]. repeat split; auto; try lia.
    + exists (bRR n). rewrite app_nil_r, <- !app_assoc, (app_assoc pre), E2. reflexivity.
    + unfold LN in *. lia.
  - destruct (sentk_prefix RShoot pre _ _ _ E2 (kinds_bRR n)) as [S1 _].
    destruct (sentk_prefix RMig pre _ _ _ E2 (kinds_bRR n)) as [S2 _].
    destruct (sentk_prefix RRestart pre _ _ _ E2 (kinds_bRR n)) as [S3 _].
    destruct (sentk_prefix RRdmaRestart pre _ _ _ E2 (kinds_bRR n)) as [S4 _].
    rewrite E1, E3, !sentk_app, !sk_D, !sk_S, !sk_M, !sk_R, S1, S2, S3, S4. cbn [rsp_eqb]. repeat split; auto; try lia.
    + exists []. rewrite !app_nil_r, <- !app_assoc, E2. reflexivity.
    + unfold LN in *. lia.
Qed.
