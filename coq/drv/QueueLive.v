(** C12 — the invariant of QueueInv.v holds initially and is preserved by
    every transition of the repaired protocol; hence no reachable state is a
    deadlock.  Termination measure: see the second half. *)
From Coq Require Import List NArith Bool Arith Lia Permutation.
Import ListNotations.
From RecordUpdate Require Import RecordSet.
Import RecordSetNotations.
From VDrv Require Import Queue Handoff QueueSafety QueueInv.

(* ---------------------------------------------------------------- Notify *)

Definition n1 := notify1 true.

Lemma n1_idem a : n1 (n1 (n1 a)) = n1 (n1 a).
Proof.
  unfold n1, notify1. destruct a as [pc pr tok cl d r]. simpl.
  destruct cl; simpl; auto. destruct pc, tok; simpl; auto.
Qed.

Lemma notify_all_spec ls : forall ap t a',
  nth_error (notify_all true ls ap) t = Some a' ->
  exists a, nth_error ap t = Some a /\
            (a' = a \/ a' = n1 a \/ a' = n1 (n1 a)) /\
            (In t ls -> a' = n1 a \/ a' = n1 (n1 a)).
Proof.
  induction ls as [|x ls IH]; simpl; intros ap t a' H.
  - exists a'. repeat split; auto. tauto.
  - apply IH in H. destruct H as (a1 & H1 & R & Hin).
    apply nth_error_upd_inv in H1. destruct H1 as (a & Ha & ->).
    exists a. split; [exact Ha|]. fold n1 in *.
    destruct (Nat.eqb x t) eqn:E.
    + apply Nat.eqb_eq in E. subst x. split.
      * destruct R as [-> | [-> | ->]]; auto. rewrite n1_idem. auto.
      * intros _. destruct R as [-> | [-> | ->]]; auto. rewrite n1_idem. auto.
    + split; [exact R|]. intros [->|Hl]; [rewrite Nat.eqb_refl in E; discriminate|auto].
Qed.

(* ---------------------------------------------------------------- scalar fields *)

Ltac inv_fields I := destruct I as [Icrash Ipause Ipause1 Irun Irerun Ievents Ineed Iindex Iresp Isend Iempty Iflight Ireq Iapps Iqueues].

Ltac rw_state :=
  repeat match goal with
         | H : eng ?s = _ |- _ => rewrite H in *; clear H
         | H : ra ?s = _ |- _ => rewrite H in *; clear H
         | H : pause ?s = _ |- _ => rewrite H in *; clear H
         | H : tick ?s = _ |- _ => rewrite H in *; clear H
         | H : erunning ?s = _ |- _ => rewrite H in *; clear H
         | H : rerun ?s = _ |- _ => rewrite H in *; clear H
         | H : ewait ?s = _ |- _ => rewrite H in *; clear H
         | H : resp ?s = _ |- _ => rewrite H in *; clear H
         end.

Lemma step_pause s l s' : inv s -> step cfg_fixed s l = Some s' ->
  pause s' = ebool epc_handler (eng s') || ra_holds (ra s') /\
  ebool epc_handler (eng s') && ra_holds (ra s') = false /\
  ewait s' + (if ebool epc_preclear (eng s') then 1 else 0) = (if erunning s' then 1 else 0) /\
  (rerun s' = true -> erunning s' = true).
Proof.
  intros I H. inv_fields I. clear Iapps Iqueues Iflight Ireq Iresp Isend Iempty Iindex Ievents Ineed.
  step_inv H; simpl in *; unfold eq_or_end; rw_state; simpl in *.
  all: repeat match goal with |- context [if ?b then _ else _] => destruct b eqn:?; simpl in * end.
  all: try (destruct (ra s); simpl in *; repeat split; auto; try lia; try discriminate; fail).
  all: destruct (ra s); simpl in *; try discriminate.
  all: destruct (erunning s); simpl in *; try discriminate.
  all: repeat split; intros; try lia; try congruence; auto.
  all: try (destruct (rerun s); simpl in *; try discriminate; auto; lia).
Qed.

(** a response in the port is matched to the queue that issued the request *)
Lemma resp_matched s : inv s -> forall q r, resp s = q :: r -> match_response s q = Some q.
Proof.
  intros I q r Hr. destruct (i_flight s I) as (_ & Hf). destruct (Hf q) as (qq & E & R & C).
  { unfold flight. rewrite Hr. apply in_or_app. right. apply in_or_app. right. apply in_or_app. right. left. reflexivity. }
  eapply match_response_ok; eauto.
Qed.

Ltac norm_resp MR :=
  repeat match goal with
         | Hr : resp _ = ?n :: _, Hm : match_response _ ?n = _ |- _ =>
           first [rewrite (MR _ _ eq_refl) in Hm | rewrite (MR _ _ Hr) in Hm];
           first [discriminate Hm | injection Hm as <-]
         end.

Lemma step_crash s l s' : inv s -> step cfg_fixed s l = Some s' -> crashed s' = false.
Proof.
  intros I H. pose proof (resp_matched s I) as MR. inv_fields I. unfold flight in Iflight.
  step_inv H; simpl in *; auto; exfalso; norm_resp MR.
  1: { (* Unsubscribe *)
    match goal with Ha : nth_error (apps s) _ = Some _ |- _ => destruct (Iapps _ _ Ha) as (_ & Hpc & _) end.
    match goal with Hp : a_pc _ = _ |- _ => rewrite Hp in Hpc end.
    destruct Hpc as (qq & E & Hin). apply mem_nat_In in Hin. congruence. }
  (* a completion for a queue that is not in flight *)
  all: destruct Iflight as (_ & Hf); destruct (Hf n) as (qq & E & R & C);
    [rewrite ?in_app_iff; simpl; tauto | congruence].
Qed.

Lemma nth_error_some_ltb {A} (l : list A) i x : nth_error l i = Some x -> Nat.ltb i (length l) = true.
Proof. intros H. apply Nat.ltb_lt, nth_error_Some. congruence. Qed.


Lemma step_index s l s' : inv s -> step cfg_fixed s l = Some s' ->
  ebool (epc_index_ok (length (queues s'))) (eng s') = true \/ eng s' = None.
Proof.
  intros I H. pose proof (step_queues_length _ _ _ _ H) as HL. rewrite HL. clear HL.
  pose proof (i_index s I) as Iindex. clear I.
  step_inv H; simpl in *; unfold eq_or_end; auto.
  all: try (repeat match goal with |- context [if ?b then _ else _] => destruct b eqn:? end; simpl; auto; fail).
  all: try (left; eapply nth_error_some_ltb; eauto; fail).
  all: match goal with H : eng _ = _ |- _ => rewrite H end; simpl; auto.
Qed.

Lemma step_need s l s' : inv s -> step cfg_fixed s l = Some s' ->
  ebool epc_needs_event (eng s') = true -> events s' = true.
Proof.
  intros I H. pose proof (i_need s I) as Ineed. clear I.
  step_inv H; simpl in *; unfold eq_or_end, events in *; simpl; auto.
  all: try (intros; discriminate).
  all: try (repeat match goal with |- context [if ?b then _ else _] => destruct b eqn:? end; simpl; auto; intros; discriminate).
  all: rw_state; simpl in *; auto.
Qed.

Lemma step_resp s l s' : inv s -> step cfg_fixed s l = Some s' ->
  nonempty (resp s') = true -> tick s' || ebool (fun p => epc_at_ret p || epc_mp p) (eng s') = true.
Proof.
  intros I H. pose proof (i_resp s I) as Iresp. clear I.
  step_inv H; simpl in *; unfold eq_or_end in *; simpl; auto.
  all: try (intros; discriminate).
  all: try (intros; apply orb_true_r).
  all: rw_state; simpl in *; auto.
  all: try (repeat match goal with |- context [if ?b then _ else _] => destruct b eqn:? end; simpl in *; auto; fail).
  all: try (intros; apply orb_true_r).
  all: try (intros; destruct (tick s); simpl in *; auto; fail).
  all: intros; try discriminate; repeat match goal with |- context [if ?b then _ else _] => destruct b eqn:? end; simpl; apply orb_true_r.
Qed.

Lemma step_send s l s' : inv s -> step cfg_fixed s l = Some s' ->
  nonempty (tosend s') = true -> tick s' || ebool (fun p => epc_at_send p || epc_mp p) (eng s') = true.
Proof.
  intros I H. pose proof (i_send s I) as Isend. clear I.
  step_inv H; simpl in *; unfold eq_or_end in *; simpl; auto.
  all: try (intros; discriminate).
  all: try (intros; apply orb_true_r).
  all: rw_state; simpl in *; auto.
  all: try (repeat match goal with |- context [if ?b then _ else _] => destruct b eqn:? end; simpl in *; auto; fail).
  all: try (intros; apply orb_true_r).
  all: try (intros; destruct (tick s); simpl in *; auto; fail).
  all: try (intros; match goal with H1 : tosend _ = [], H2 : nonempty (tosend _) = true |- _ => rewrite H1 in H2; discriminate end).
  all: intros; try discriminate; repeat match goal with |- context [if ?b then _ else _] => destruct b eqn:? end; simpl; apply orb_true_r.
Qed.

Lemma step_empty s l s' : inv s -> step cfg_fixed s l = Some s' ->
  nonempty (empties s') = true -> tick s' || ebool (fun p => epc_at_empty p || epc_mp p) (eng s') = true.
Proof.
  intros I H. pose proof (i_empty s I) as Iempty. clear I.
  step_inv H; simpl in *; unfold eq_or_end in *; simpl; auto.
  all: try (intros; discriminate).
  all: try (intros; apply orb_true_r).
  all: rw_state; simpl in *; auto.
  all: try (repeat match goal with |- context [if ?b then _ else _] => destruct b eqn:? end; simpl in *; auto; fail).
  all: try (intros; apply orb_true_r).
  all: try (intros; destruct (tick s); simpl in *; auto; fail).
  all: try (intros; match goal with H1 : empties _ = [], H2 : nonempty (empties _) = true |- _ => rewrite H1 in H2; discriminate end).
  all: intros; try discriminate; repeat match goal with |- context [if ?b then _ else _] => destruct b eqn:? end; simpl; apply orb_true_r.
Qed.

Lemma step_events s l s' : inv s -> step cfg_fixed s l = Some s' ->
  events s' = true -> engine_coming s' = true.
Proof.
  intros I H. pose proof (i_events s I) as Ievents. pose proof (i_run s I) as Irun. clear I.
  step_inv H; simpl in *; unfold eq_or_end, events, engine_coming in *; simpl; auto.
  all: rw_state; simpl in *; auto.
  all: try (intros; rewrite ?orb_true_r; reflexivity).
  all: try (intros _; repeat match goal with |- context [if ?b then _ else _] => destruct b eqn:? end; simpl;
            destruct (0 <? ewait s); reflexivity).
  all: try (intros _; destruct (ewait s); simpl in *; auto; destruct (eng s) as [[]|]; simpl in *; auto; lia).
  all: match goal with H : _ = false |- _ => rewrite H; discriminate end.
Qed.

(* ---------------------------------------------------------------- application threads *)

Lemma In_remove_first_other t x l : x <> t -> In x l -> In x (remove_first t l).
Proof.
  intros N. induction l; simpl; auto. intros [->|H].
  - destruct (Nat.eqb x t) eqn:E; [apply Nat.eqb_eq in E; congruence|left; reflexivity].
  - destruct (Nat.eqb a t); auto. right; auto.
Qed.

Lemma step_listening c s l s' : step c s l = Some s' ->
  forall q t, listening s q t ->
    listening s' q t \/ (exists a, l = TApp t /\ nth_error (apps s) t = Some a /\ a_pc a = AUnsub q).
Proof.
  intros H q t (qq & E & Hin). unfold listening.
  step_inv H; simpl in *; eauto.
  all: match goal with |- context [upd ?i _ _] => destruct (Nat.eq_dec i q) as [->|Nq] end.
  all: try (left; rewrite nth_error_upd_other by assumption; eauto; fail).
  all: try (left; erewrite nth_error_upd_same by eassumption; eexists; split; [reflexivity|]; simpl; auto using in_or_app; fail).
  destruct (Nat.eq_dec t t0) as [->|Nt]; [right; eauto|left].
  erewrite nth_error_upd_same by eassumption. eexists; split; [reflexivity|]. simpl.
  apply In_remove_first_other; auto.
Qed.

Ltac dedup_nth :=
  repeat match goal with
         | H1 : nth_error ?l ?i = Some ?a, H2 : nth_error ?l ?i = Some ?b |- _ =>
           assert (a = b) by congruence; subst a; clear H1
         end.

Ltac wk :=
  match goal with
  | |- (exists qq0, nth_error (upd ?i ?f ?qs) ?q = Some qq0 /\ _) \/ _ =>
     destruct (Nat.eq_dec i q) as [->|?];
     [ left; dedup_nth; erewrite nth_error_upd_same by eassumption; eexists; split; [reflexivity|]; simpl
     | left; rewrite nth_error_upd_other by assumption; eexists; split; [eassumption|] ]
  | |- (exists qq0, nth_error ?qs ?q = Some qq0 /\ _) \/ _ =>
     left; eexists; split; [eassumption|]
  end.

Lemma step_wake c s l s' : step c s l = Some s' ->
  forall q, wake_ok s q -> wake_ok s' q \/ (l = TEng /\ ebool (epc_notifies q) (eng s) = true).
Proof.
  intros H q (qq & E & W). unfold wake_ok.
  destruct W as [W|W].
  - (* the queue is not empty *)
    step_inv H; simpl in *; eauto.
    all: wk; unfold eq_or_end; simpl; auto.
    all: try (left; intro X; apply app_eq_nil in X; destruct X; discriminate).
    all: try (dedup_nth; auto; fail).
    all: try (right; apply Nat.eqb_refl).
  - (* a notification is pending *)
    step_inv H; simpl in *; eauto.
    all: try match goal with H : eng _ = _ |- _ => rewrite H in *; simpl in W; try discriminate end.
    all: try (right; split; [reflexivity|assumption]).
    all: try (wk; auto; fail).
Qed.

Lemma app_inv_frame s s' t a :
  app_inv s t a -> length (queues s') = length (queues s) ->
  (forall q, listening s q t -> listening s' q t) ->
  (forall q, a_pc a = AWait q \/ a_pc a = AParked q -> wake_ok s q -> wake_ok s' q) ->
  app_inv s' t a.
Proof.
  intros (A1 & A2 & A3 & A4) L FL FW. unfold app_inv. rewrite L.
  split; [exact A1|]. split; [|split; [|exact A4]].
  - destruct (a_pc a); auto; destruct A2; split; auto.
  - destruct (a_pc a) eqn:P; auto.
    + destruct A3 as [A3|A3]; auto.
    + destruct A3; split; auto.
Qed.

Ltac app_inv_fin A2 A3 A4 :=
  repeat split; auto; try tauto;
  try (destruct A2; auto; fail);
  try (destruct A3 as [?|?]; auto; fail);
  try (destruct A3; auto; fail);
  try (let D := fresh in intros D; specialize (A4 D); tauto).

Lemma app_inv_n1 s t a : app_inv s t a -> app_inv s t (n1 a).
Proof.
  intros H. unfold n1, notify1.
  destruct (a_closed a) eqn:C; [exact H|]. destruct H as ((A1 & A1') & A2 & A3 & A4).
  destruct (a_pc a) eqn:P; simpl; destruct (a_tok a) eqn:T; simpl; unfold app_inv; simpl; rewrite ?P, ?C, ?T;
    app_inv_fin A2 A3 A4.
Qed.

(** after a notification the owner of an open listener no longer depends on
    anybody: it is not parked, and if it is about to wait a token is buffered *)
Lemma app_inv_notified s s' t a x :
  app_inv s t a -> a_closed a = false -> x = n1 a \/ x = n1 (n1 a) ->
  length (queues s') = length (queues s) ->
  (forall q, listening s q t -> listening s' q t) ->
  app_inv s' t x.
Proof.
  intros ((A1 & A1') & A2 & A3 & A4) C Hx L FL.
  assert (Hn : app_inv s' t (n1 a)).
  { unfold n1, notify1. rewrite C.
    destruct (a_pc a) eqn:P; simpl; destruct (a_tok a) eqn:T; simpl; unfold app_inv; simpl; rewrite ?P, ?C, ?T, ?L;
      app_inv_fin A2 A3 A4. }
  destruct Hx as [->| ->]; auto. apply app_inv_n1. exact Hn.
Qed.

Lemma ops_ok_tail_enq n q c r : ops_ok n (OEnq q c :: r) -> ops_ok n r /\ r <> [] /\ q < n.
Proof.
  intros (F & L). inversion F; subst. simpl in H1. apply Nat.ltb_lt in H1.
  destruct r as [|o r]; [simpl in L; contradiction|].
  repeat split; auto. discriminate.
Qed.

Lemma ops_ok_tail_drain n q r : ops_ok n (ODrain q :: r) -> ops_ok n r /\ q < n.
Proof.
  intros (F & L). inversion F; subst. simpl in H1. apply Nat.ltb_lt in H1.
  destruct r as [|o r]; repeat split; auto.
Qed.

Lemma nth_error_some_lt {A} (l : list A) i x : nth_error l i = Some x -> i < length l.
Proof. intros H. apply nth_error_Some. congruence. Qed.

Lemma app_inv_same s s' t a :
  app_inv s t a -> queues s' = queues s -> eng s' = eng s -> app_inv s' t a.
Proof.
  intros H Q E. unfold app_inv, listening, wake_ok in *. rewrite Q, E. exact H.
Qed.

Lemma n1_pc_not_parked a : (forall q, a_pc a <> AParked q) -> a_pc (n1 a) = a_pc a.
Proof.
  intros H. unfold n1, notify1. destruct (a_closed a); auto.
  destruct (a_pc a) eqn:P; simpl; try (destruct (negb (a_tok a)); simpl; auto; fail).
  exfalso. eapply H; eauto.
Qed.

Lemma n1_closed a : a_closed a = true -> n1 a = a.
Proof. intros H. unfold n1, notify1. rewrite H. reflexivity. Qed.

(** an engine-side NotifyAllSubscribers on queue [qi] *)
Lemma notify_apps s s' qi qq t a' :
  (forall t a, nth_error (apps s) t = Some a -> app_inv s t a) ->
  nth_error (queues s) qi = Some qq ->
  queues s' = queues s ->
  (forall q, ebool (epc_notifies q) (eng s) = true -> q = qi) ->
  (forall q, ebool (epc_notifies q) (eng s) = false -> ebool (epc_notifies q) (eng s') = false \/ True) ->
  (forall q, wake_ok s q -> wake_ok s' q \/ ebool (epc_notifies q) (eng s) = true) ->
  nth_error (notify_all true (q_lst qq) (apps s)) t = Some a' ->
  app_inv s' t a'.
Proof.
  intros Iapps Eq Q Hn _ FW Ha.
  apply notify_all_spec in Ha. destruct Ha as (a & Ha & R & Hin).
  pose proof (Iapps _ _ Ha) as HA.
  assert (L : length (queues s') = length (queues s)) by (rewrite Q; reflexivity).
  assert (FL : forall q, listening s q t -> listening s' q t) by (intros q; unfold listening; rewrite Q; auto).
  destruct (in_dec Nat.eq_dec t (q_lst qq)) as [Hi|Hni].
  - destruct (a_closed a) eqn:C.
    + rewrite !(n1_closed a C) in *. assert (a' = a) by (destruct R as [?|[?|?]]; auto). subst a'.
      eapply app_inv_frame; eauto. intros q [P|P] _; destruct HA as (_ & A2 & _); rewrite P in A2; destruct A2; congruence.
    + eapply app_inv_notified; eauto.
  - assert (HA' : app_inv s' t a).
    { eapply app_inv_frame; eauto. intros q P W. destruct (FW q W) as [?|N]; auto. exfalso.
      apply Hn in N. subst q. destruct HA as (_ & A2 & _).
      destruct P as [P|P]; rewrite P in A2; destruct A2 as (_ & qq' & E' & Hin'); apply Hni; congruence. }
    destruct R as [ -> | [ -> | -> ] ]; auto using app_inv_n1.
Qed.

Ltac notify_case FW :=
  match goal with
       | Heng : eng _ = Some _, Hq : nth_error (queues _) ?k = Some ?qq
         |- context [notify_all true (q_lst ?qq)] =>
         eapply notify_apps with (qi := k); eauto;
         [ let q' := fresh "q'" in let X := fresh "X" in
           intros q'; rewrite Heng; simpl; intros X; apply Nat.eqb_eq in X; subst; reflexivity
         | let q' := fresh "q'" in let W := fresh "W" in
           intros q' W; destruct (FW q' W) as [?|(_ & ?)]; [auto|right; rewrite Heng; simpl; assumption] ]
       end.

Ltac frame_other Iapps Ha FL FW LEN :=
  eapply app_inv_frame;
  [ apply Iapps; exact Ha
  | exact LEN
  | let q := fresh "q" in let Hl := fresh "Hl" in let Hx := fresh "Hx" in
    intros q Hl; destruct (FL q _ Hl) as [?|(? & Hx & ?)];
    [assumption| try discriminate Hx; try (injection Hx as Hx; subst; rewrite Nat.eqb_refl in *; discriminate)]
  | let q := fresh "q" in let Hp := fresh "Hp" in let Hw := fresh "Hw" in let Hx := fresh "Hx" in let Hn := fresh "Hn" in
    intros q Hp Hw; destruct (FW q Hw) as [?|(Hx & Hn)];
    [assumption| try discriminate Hx; try discriminate Hn;
                 try (match goal with He : eng _ = Some _ |- _ => rewrite He in Hn end; simpl in Hn; discriminate)] ].

Lemma step_apps s l s' : inv s -> step cfg_fixed s l = Some s' ->
  forall t a', nth_error (apps s') t = Some a' -> app_inv s' t a'.
Proof.
  intros I H t a' Ha.
  pose proof (step_queues_length _ _ _ _ H) as LEN.
  pose proof (step_listening _ _ _ _ H) as FL.
  pose proof (step_wake _ _ _ _ H) as FW.
  pose proof (i_apps s I) as Iapps. clear I.
  step_inv H; simpl in *.
  all: try (frame_other Iapps Ha FL FW LEN; fail).
  all: try (apply nth_error_upd_inv in Ha; destruct Ha as (x & Ha & ->);
            match goal with |- context [if Nat.eqb ?a ?b then _ else _] => destruct (Nat.eqb a b) eqn:E end;
            [apply Nat.eqb_eq in E; subst | frame_other Iapps Ha FL FW LEN; fail]).
  all: try (exfalso;
            match goal with
            | Hm : mem_nat ?t0 (q_lst ?q0) = false, Ht : nth_error (apps _) ?t0 = Some ?a, Hp : a_pc ?a = AUnsub _ |- _ =>
              destruct (Iapps _ _ Ht) as (_ & A2 & _); rewrite Hp in A2; destruct A2 as (qq & E & Hin);
              apply mem_nat_In in Hin; congruence
            end).
  all: dedup_nth.
  all: try match goal with Ha : nth_error (apps _) ?t = Some ?x |- app_inv _ ?t _ =>
             pose proof (Iapps _ _ Ha) as ((A1 & A1') & A2 & A3 & A4) end.
  all: repeat match goal with H : a_pc _ = _ |- _ => rewrite H in *; clear H end.
  all: repeat match goal with H : a_prog _ = _ |- _ => rewrite H in *; clear H end.
  - (* Enqueue: append *)
    destruct (ops_ok_tail_enq _ _ _ _ (conj A1 A1')) as (O1 & O2 & O3).
    unfold app_inv; simpl. rewrite upd_length. split; [exact O1|]. repeat split; auto.
  - (* Drain: subscribe *)
    destruct (ops_ok_tail_drain _ _ _ (conj A1 A1')) as (O1 & O3).
    unfold app_inv, listening; simpl. rewrite upd_length. split; [exact O1|]. split; [|split; [exact I|intros _; exact I]].
    split; [reflexivity|]. erewrite nth_error_upd_same by eassumption. eexists; split; [reflexivity|].
    simpl. apply in_or_app. right. simpl. auto.
  - (* Enqueue: notify *)
    apply nth_error_upd_inv in Ha. destruct Ha as (x & Ha & ->).
    apply notify_all_spec in Ha. destruct Ha as (a0 & Ha & R & _).
    pose proof (Iapps _ _ Ha) as HA.
    assert (HX : app_inv s t x) by (destruct R as [ -> | [ -> | -> ] ]; auto using app_inv_n1).
    destruct (Nat.eqb t0 t) eqn:E.
    + apply Nat.eqb_eq in E. subst t0. dedup_nth.
      assert (P : a_pc x = AEnqNotify q).
      { assert (NP : forall q', a_pc a0 <> AParked q') by (intros q' X; congruence).
        destruct R as [ -> | [ -> | -> ] ]; rewrite ?n1_pc_not_parked; auto.
        intros q'. rewrite n1_pc_not_parked; auto. }
      destruct HX as (X1 & X2 & X3 & X4). rewrite P in *.
      unfold app_inv; simpl. repeat split; auto; apply X1.
    + eapply app_inv_same; eauto.
  - (* Drain: signal *)
    unfold app_inv, listening, wake_ok in *; simpl in *. repeat split; auto; try tauto; try discriminate.
  - (* Drain: queue empty *)
    unfold app_inv, listening, wake_ok in *; simpl in *. repeat split; auto; try tauto.
  - (* Drain: queue not empty *)
    unfold app_inv, listening, wake_ok in *; simpl in *. repeat split; auto; try tauto.
    right. eexists; split; [eassumption|]. left. congruence.
  - (* Wait *)
    unfold app_inv, listening, wake_ok in *; simpl in *.
    destruct (a_tok x) eqn:T; simpl; repeat split; auto; try tauto.
    destruct A3 as [A3|A3]; [discriminate|exact A3].
  - (* close *)
    unfold app_inv, listening, wake_ok in *; simpl in *. repeat split; auto; try tauto.
  - (* unsubscribe *)
    unfold app_inv, listening, wake_ok in *; simpl in *. rewrite upd_length. repeat split; auto; try tauto.
  - notify_case FW.
  - notify_case FW.
  - notify_case FW.
Qed.

(* ---------------------------------------------------------------- requests in flight, work *)

Lemma remove_first_perm q g : In q g -> Permutation g (q :: remove_first q g).
Proof.
  induction g as [|x g IH]; simpl; [tauto|]. intros [->|H].
  - rewrite Nat.eqb_refl. reflexivity.
  - destruct (Nat.eqb x q) eqn:E; [apply Nat.eqb_eq in E; subst; reflexivity|].
    rewrite perm_swap. constructor. auto.
Qed.

Lemma move_perm q g r : In q g -> Permutation (remove_first q g ++ (r ++ [q])) (g ++ r).
Proof.
  intros H. rewrite (remove_first_perm q g H) at 2. simpl.
  rewrite app_assoc. rewrite <- Permutation_cons_append. reflexivity.
Qed.

Lemma send_perm (q : nat) r g p : Permutation (r ++ (g ++ [q]) ++ p) ((q :: r) ++ g ++ p).
Proof.
  simpl. rewrite <- (app_assoc g [q] p). simpl. rewrite (app_assoc r g (q :: p)).
  apply Permutation_sym, Permutation_cons_app. rewrite app_assoc. reflexivity.
Qed.

Lemma start_perm (i : nat) t rest : Permutation ((t ++ [i]) ++ rest) (i :: t ++ rest).
Proof. rewrite <- app_assoc. simpl. apply Permutation_sym, Permutation_middle. Qed.

Lemma answer_perm q t g r : In q g -> Permutation (t ++ remove_first q g ++ r ++ [q]) (t ++ g ++ r).
Proof. intros H. apply Permutation_app_head. apply move_perm. exact H. Qed.

Definition flight_ok (s : state) : Prop :=
  NoDup (flight s) /\
  forall q, In q (flight s) ->
            exists qq, nth_error (queues s) q = Some qq /\ q_running qq = true /\ q_cmds qq <> [].

Lemma flight_upd i f (qs : list queue) fl :
  (forall q, In q fl -> exists qq, nth_error qs q = Some qq /\ q_running qq = true /\ q_cmds qq <> []) ->
  (forall x, nth_error qs i = Some x -> q_running x = true -> q_cmds x <> [] ->
             q_running (f x) = true /\ q_cmds (f x) <> []) ->
  forall q, In q fl -> exists qq, nth_error (upd i f qs) q = Some qq /\ q_running qq = true /\ q_cmds qq <> [].
Proof.
  intros H Hf q Hq. destruct (H q Hq) as (qq & E & R & C).
  destruct (Nat.eq_dec i q) as [->|N].
  - erewrite nth_error_upd_same by eassumption. eexists; split; [reflexivity|]. apply Hf; auto.
  - rewrite nth_error_upd_other by assumption. eauto.
Qed.

Lemma async_start_perm (i : nat) e t rest : Permutation (e ++ (t ++ [i]) ++ rest) (i :: e ++ t ++ rest).
Proof.
  eapply perm_trans; [apply Permutation_app_head, start_perm|]. apply Permutation_sym, Permutation_middle.
Qed.

Lemma step_flight s l s' : inv s -> step cfg_fixed s l = Some s' -> flight_ok s'.
Proof.
  intros I H. pose proof (resp_matched s I) as MR. destruct (i_flight s I) as (ND & FL). clear I.
  unfold flight_ok, flight in *.
  step_inv H; simpl in *; auto.
  all: norm_resp MR.
  all: try (split; [exact ND|]; eapply flight_upd; eauto; intros x Hx R C; simpl; unfold q_append; simpl; split; auto;
            intro X; apply app_eq_nil in X; destruct X; discriminate).
  all: repeat match goal with H : resp _ = _ |- _ => rewrite H in *; clear H end.
  all: repeat match goal with H : tosend _ = _ |- _ => rewrite H in *; clear H end.
  all: repeat match goal with H : empties _ = _ |- _ => rewrite H in *; clear H end.
  all: try (split; assumption).
  - (* sendToGPUs *)
    pose proof (Permutation_app_head (empties s) (send_perm n l0 (gpu s) (resp s))) as P. split.
    + eapply Permutation_NoDup; [symmetry; exact P|exact ND].
    + intros q0 Hq0. apply FL. apply (Permutation_in _ P) in Hq0. exact Hq0.
  - (* an empty copy is completed *)
    simpl in ND. inversion ND as [|? ? Hn ND']; subst. split; [exact ND'|].
    intros q0 Hq0. assert (Nq : q0 <> n) by (intros ->; contradiction).
    rewrite nth_error_upd_other by auto. apply FL. right. exact Hq0.
  - (* a response is consumed *)
    rewrite !app_assoc in ND. rewrite !app_assoc. split; [eapply NoDup_remove_1; eauto|].
    intros q0 Hq0. assert (Nq : q0 <> n).
    { intros ->. apply NoDup_remove_2 in ND. contradiction. }
    rewrite nth_error_upd_other by auto. apply FL. rewrite !app_assoc. apply in_app_or in Hq0. apply in_or_app.
    destruct Hq0; [left|right; right]; assumption.
  - (* a no-op command is removed from a queue that is not running *)
    split; [exact ND|]. intros q0 Hq0. assert (Nq : q0 <> i).
    { intros ->. destruct (FL _ Hq0) as (qq & E & R & _). congruence. }
    rewrite nth_error_upd_other by auto. auto.
  - (* an asynchronous command starts *)
    assert (Ni : ~ In i (empties s ++ tosend s ++ gpu s ++ resp s)).
    { intros Hi. destruct (FL _ Hi) as (qq & E & R & _). congruence. }
    pose proof (async_start_perm i (empties s) (tosend s) (gpu s ++ resp s)) as P. split.
    + eapply Permutation_NoDup; [symmetry; exact P|]. constructor; auto.
    + intros q0 Hq0. apply (Permutation_in _ P) in Hq0. destruct (Nat.eq_dec i q0) as [->|N].
      * erewrite nth_error_upd_same by eassumption. eexists; split; [reflexivity|]. simpl. split; auto. congruence.
      * rewrite nth_error_upd_other by assumption. apply FL. destruct Hq0; [congruence|assumption].
  - (* an empty copy starts *)
    assert (Ni : ~ In i (empties s ++ tosend s ++ gpu s ++ resp s)).
    { intros Hi. destruct (FL _ Hi) as (qq & E & R & _). congruence. }
    pose proof (start_perm i (empties s) (tosend s ++ gpu s ++ resp s)) as P. split.
    + eapply Permutation_NoDup; [symmetry; exact P|]. constructor; auto.
    + intros q0 Hq0. apply (Permutation_in _ P) in Hq0. destruct (Nat.eq_dec i q0) as [->|N].
      * erewrite nth_error_upd_same by eassumption. eexists; split; [reflexivity|]. simpl. split; auto. congruence.
      * rewrite nth_error_upd_other by assumption. apply FL. destruct Hq0; [congruence|assumption].
  - (* the GPU answers *)
    apply mem_nat_In in Heqb0.
    pose proof (Permutation_app_head (empties s) (answer_perm q (tosend s) _ (resp s) Heqb0)) as P. split.
    + eapply Permutation_NoDup; [symmetry; exact P|exact ND].
    + intros q0 Hq0. apply FL. eapply Permutation_in; eauto.
Qed.

Lemma step_running s l s' : inv s -> step cfg_fixed s l = Some s' ->
  forall q qq, nth_error (queues s') q = Some qq -> q_running qq = true -> In q (flight s').
Proof.
  intros I H q qq' Hq R.
  assert (IQ : forall q qq, nth_error (queues s) q = Some qq -> q_running qq = true -> In q (flight s))
    by (intros q1 qq1 E1; apply (i_queues s I q1 qq1 E1)).
  pose proof (resp_matched s I) as MR.
  clear I. unfold flight in *.
  step_inv H; simpl in *; eauto.
  all: norm_resp MR.
  all: repeat match goal with H : resp _ = _ |- _ => rewrite H in *; clear H end.
  all: repeat match goal with H : tosend _ = _ |- _ => rewrite H in *; clear H end.
  all: repeat match goal with H : empties _ = _ |- _ => rewrite H in *; clear H end.
  all: try (apply nth_error_upd_inv in Hq; destruct Hq as (x & Hq & ->);
            match type of R with context [if Nat.eqb ?a ?b then _ else _] => destruct (Nat.eqb a b) eqn:E end;
            simpl in R; try discriminate; eauto; fail).
  all: try (eapply IQ; eauto; fail).
  - (* sendToGPUs *)
    eapply Permutation_in; [symmetry; apply Permutation_app_head, send_perm|]. eapply IQ; eauto.
  - (* empty copy completed *)
    apply nth_error_upd_inv in Hq. destruct Hq as (x & Hq & ->).
    destruct (Nat.eqb n q) eqn:E; simpl in R; [discriminate|].
    pose proof (IQ _ _ Hq R) as Hin. simpl in Hin. destruct Hin as [->|Hin]; [rewrite Nat.eqb_refl in E; discriminate|exact Hin].
  - (* response consumed *)
    apply nth_error_upd_inv in Hq. destruct Hq as (x & Hq & ->).
    destruct (Nat.eqb n q) eqn:E; simpl in R; [discriminate|].
    pose proof (IQ _ _ Hq R) as Hin. rewrite !app_assoc in Hin. rewrite !app_assoc.
    apply in_app_or in Hin. apply in_or_app.
    destruct Hin as [?|[->|?]]; auto. rewrite Nat.eqb_refl in E. discriminate.
  - (* asynchronous start *)
    apply nth_error_upd_inv in Hq. destruct Hq as (x & Hq & ->).
    eapply Permutation_in; [symmetry; apply async_start_perm|]. simpl.
    destruct (Nat.eqb i q) eqn:E; simpl in R.
    + apply Nat.eqb_eq in E. subst. left. reflexivity.
    + right. eapply IQ; eauto.
  - (* empty copy starts *)
    apply nth_error_upd_inv in Hq. destruct Hq as (x & Hq & ->).
    eapply Permutation_in; [symmetry; apply start_perm|]. simpl.
    destruct (Nat.eqb i q) eqn:E; simpl in R.
    + apply Nat.eqb_eq in E. subst. left. reflexivity.
    + right. eapply IQ; eauto.
  - (* GPU answers *)
    apply mem_nat_In in Heqb0. eapply Permutation_in; [symmetry; apply Permutation_app_head, answer_perm; exact Heqb0|].
    eapply IQ; eauto.
Qed.

Definition dirty_ex (ap : list app) : Prop := exists t a, nth_error ap t = Some a /\ a_dirty a = true.

Lemma dirty_upd ap t f : dirty_ex ap -> (forall x, a_dirty (f x) = a_dirty x) -> dirty_ex (upd t f ap).
Proof.
  intros (t0 & a & Ha & D) Hf. exists t0. rewrite nth_error_upd, Ha. simpl.
  destruct (Nat.eqb t t0); eexists; split; eauto.
Qed.

Lemma n1_dirty a : a_dirty (n1 a) = a_dirty a.
Proof. unfold n1, notify1. destruct (a_closed a), (a_pc a), (a_tok a); reflexivity. Qed.

Lemma dirty_notify ls : forall ap, dirty_ex ap -> dirty_ex (notify_all true ls ap).
Proof.
  induction ls as [|x ls IH]; simpl; intros ap H; auto.
  apply IH. apply dirty_upd; auto. apply n1_dirty.
Qed.

#[local] Arguments Nat.leb : simpl never.
#[local] Arguments Nat.ltb : simpl never.

Definition work_ok (s : state) (q : nat) (qq : queue) : Prop :=
  q_cmds qq <> [] -> q_running qq = false -> tick_coming s q = true \/ dirty_ex (apps s).

Lemma step_work s l s' : inv s -> step cfg_fixed s l = Some s' ->
  forall q qq, nth_error (queues s') q = Some qq -> work_ok s' q qq.
Proof.
  intros I H q qq' Hq C R.
  assert (IQ : forall q qq, nth_error (queues s) q = Some qq -> work_ok s q qq)
    by (intros q1 qq1 E1; destruct (i_queues s I q1 qq1 E1) as (W & _); exact W).
  pose proof (step_queues_length _ _ _ _ H) as LEN.
  assert (QL : q < length (queues s)) by (rewrite <- LEN; eapply nth_error_some_lt; eauto).
  clear I LEN. unfold work_ok in IQ.
  step_inv H; simpl in *; unfold tick_coming, events, eq_or_end in *; simpl in *.
  all: try (left; rewrite ?orb_true_r; reflexivity).
  all: try (match type of Hq with
            | nth_error (upd _ _ _) _ = _ =>
              apply nth_error_upd_inv in Hq; destruct Hq as (x & Hq & ->);
              match type of C with context [if Nat.eqb ?a ?b then _ else _] => destruct (Nat.eqb a b) eqn:E end;
              simpl in C, R
            end).
  all: try (destruct (IQ _ _ Hq C R) as [W0|W0];
            [ left | right; repeat (apply dirty_upd; [|let x0 := fresh in intros x0; try destruct (a_tok x0); reflexivity]);
                     try apply dirty_notify; exact W0 ]).
  all: try match goal with H : eng _ = _ |- _ => rewrite H in W0; simpl in W0 end.
  all: try match goal with H : ra _ = _ |- _ => rewrite H in W0; simpl in W0 end.
  all: try exact W0.
  1,2: (right; exists t; rewrite nth_error_upd, Nat.eqb_refl, Heqo; simpl; eexists; split; reflexivity).
  all: try (assert (Ni : i <> q) by (intros ->; dedup_nth; congruence)).
  all: repeat match goal with |- context [if ?b then _ else _] => destruct b eqn:? end; simpl in *.
  all: repeat match goal with
              | H : (_ <? _) = true |- _ => apply Nat.ltb_lt in H
              | H : (_ <? _) = false |- _ => apply Nat.ltb_ge in H
              | H : (_ =? _) = false |- _ => apply Nat.eqb_neq in H
              end.
  all: rewrite ?orb_true_r in *; try reflexivity.
  all: try (match goal with H : eng _ = _ |- _ => rewrite H end; simpl; rewrite ?orb_true_r; reflexivity).
  all: try (destruct mp; simpl in *; rewrite ?orb_true_r in *; try reflexivity).
  all: try (destruct (tick s); simpl in *; try reflexivity; destruct (nonempty (gpu s)); simpl in *; try reflexivity;
            destruct (ra_pre_tick (ra s)); simpl in *; try reflexivity;
            rewrite ?orb_false_r in *; try discriminate;
            try (apply Nat.leb_le in W0); try (apply Nat.ltb_lt in W0); try (apply Nat.leb_le); try (apply Nat.ltb_lt); try lia).
  all: try (apply Nat.ltb_lt; lia).
  all: try (exfalso; lia).
  all: try (exfalso; match goal with H : nth_error _ _ = None |- _ => apply nth_error_None in H end; lia).
Qed.

(* ---------------------------------------------------------------- request IDs *)

Lemma step_req s l s' : inv s -> step cfg_fixed s l = Some s' ->
  (forall i qi, nth_error (queues s') i = Some qi -> q_running qi = true -> (q_req qi < next_req s')%N) /\
  (forall i j qi qj, nth_error (queues s') i = Some qi -> nth_error (queues s') j = Some qj ->
                     q_running qi = true -> q_running qj = true -> q_req qi = q_req qj -> i = j).
Proof.
  intros I H. destruct (i_req s I) as (LT & UQ). clear I.
  step_inv H; simpl in *; try (split; assumption).
  all: split; [intros i0 qi Hi Ri | intros i0 j0 qi qj Hi Hj Ri Rj Q].
  all: repeat match goal with
              | Hx : nth_error (upd _ _ _) _ = Some _ |- _ =>
                apply nth_error_upd_inv in Hx; let x := fresh "x" in destruct Hx as (x & Hx & ->)
              end.
  all: repeat match goal with
              | Hx : context [if Nat.eqb ?a ?b then _ else _] |- _ => destruct (Nat.eqb a b) eqn:?; simpl in Hx
              | |- context [if Nat.eqb ?a ?b then _ else _] => destruct (Nat.eqb a b) eqn:?; simpl
              end.
  all: simpl in *; try discriminate.
  all: repeat match goal with Hx : (_ =? _) = true |- _ => apply Nat.eqb_eq in Hx end; subst.
  all: try (eapply LT; eauto; fail).
  all: try (eapply UQ; eauto; fail).
  all: try reflexivity.
  all: try (apply N.lt_lt_succ_r; eapply LT; eauto; fail).
  all: try (apply N.lt_succ_diag_r).
  all: try (exfalso; match goal with Hx : nth_error (queues _) _ = Some ?x, Rx : q_running ?x = true |- _ =>
                       pose proof (LT _ _ Hx Rx) as L1; simpl in Q; rewrite ?Q in L1; rewrite <- ?Q in L1;
                       apply N.lt_irrefl in L1; exact L1 end).
Qed.

(* ---------------------------------------------------------------- the invariant is inductive *)

Theorem step_preserves_inv s l s' : inv s -> step cfg_fixed s l = Some s' -> inv s'.
Proof.
  intros I H.
  destruct (step_pause _ _ _ I H) as (P1 & P2 & P3 & P4).
  constructor; auto.
  - eapply step_crash; eauto.
  - eapply step_events; eauto.
  - eapply step_need; eauto.
  - eapply step_index; eauto.
  - eapply step_resp; eauto.
  - eapply step_send; eauto.
  - eapply step_empty; eauto.
  - exact (step_flight _ _ _ I H).
  - exact (step_req _ _ _ I H).
  - eapply step_apps; eauto.
  - intros q qq Hq. split.
    + exact (step_work _ _ _ I H q qq Hq).
    + eapply step_running; eauto.
Qed.

Lemma prog_ok_ops nq p : prog_ok nq p = true -> ops_ok nq p.
Proof.
  unfold prog_ok, ops_ok. intros H. apply andb_true_iff in H. destruct H as (F & L). split.
  - apply Forall_forall. intros o Ho. rewrite forallb_forall in F. auto.
  - destruct (last p (ODrain 0)); [discriminate|exact I].
Qed.

Theorem init_ctx_inv cs ps : progs_ok (length cs) ps = true -> inv (init_ctx cs ps).
Proof.
  intros Hp. constructor; simpl; auto; try discriminate.
  - split; [constructor|]. intros q [].
  - split.
    + intros i qi Hi R. apply nth_error_In, in_map_iff in Hi. destruct Hi as (c & <- & _). discriminate.
    + intros i j qi qj Hi _ R. apply nth_error_In, in_map_iff in Hi. destruct Hi as (c & <- & _). discriminate.
  - intros t a Ha. rewrite nth_error_map in Ha. destruct (nth_error ps t) as [p|] eqn:E; [|discriminate].
    injection Ha as <-. unfold app_inv; simpl. rewrite map_length.
    assert (O : ops_ok (length cs) p).
    { apply prog_ok_ops. unfold progs_ok in Hp. rewrite forallb_forall in Hp. apply Hp. eapply nth_error_In; eauto. }
    split; [exact O|]. repeat split; auto; discriminate.
  - intros q qq Hq. apply nth_error_In, in_map_iff in Hq. destruct Hq as (c & <- & _).
    split; simpl; [intros C; contradiction|discriminate].
Qed.

Lemma default_ctxs_length nq : length (default_ctxs nq) = nq.
Proof. unfold default_ctxs. rewrite map_length, seq_length. reflexivity. Qed.

Theorem init_inv nq ps : progs_ok nq ps = true -> inv (init nq ps).
Proof. intros Hp. apply init_ctx_inv. rewrite default_ctxs_length. exact Hp. Qed.

Theorem run_inv l : forall s s', inv s -> run cfg_fixed s l = Some s' -> inv s'.
Proof.
  induction l as [|x l IH]; simpl; intros s s' I H.
  - injection H as <-. exact I.
  - destruct (step cfg_fixed s x) eqn:E; [|discriminate]. eapply IH; [|exact H]. eapply step_preserves_inv; eauto.
Qed.

(** No reachable state of the repaired protocol is a deadlock. *)
Theorem reachable_not_deadlocked nq ps sched s :
  progs_ok nq ps = true -> run cfg_fixed (init nq ps) sched = Some s -> deadlocked cfg_fixed s = false.
Proof.
  intros Hp Hr. apply inv_not_deadlocked. eapply run_inv; eauto. apply init_inv; exact Hp.
Qed.
