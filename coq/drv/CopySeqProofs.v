(** Sequences of copies refine a flat byte array over virtual addresses, and a
    copy issued after a page move goes through the new mapping. *)
From Coq Require Import List NArith Bool Arith Lia ZifyN ZifyNat ZifyBool.
From VLib Require Import Chunks ChunksProofs.
From VMem Require Import StorageAccessor StorageAccessorProofs.
From VDrv Require Import MemCopy MemCopyProofs CopySeq.
Import ListNotations.
Open Scope N_scope.

Lemma to_list_ext f g a n : (forall i, i < n -> f (a + i) = g (a + i)) -> to_list f a n = to_list g a n.
Proof.
  intros H. unfold to_list. apply map_ext_in. intros i Hi. apply in_seq in Hi. apply H. lia.
Qed.

Lemma to_list_of_list d : to_list (of_list d) 0 (len d) = d.
Proof.
  unfold to_list, of_list, len. rewrite Nat2N.id.
  apply nth_ext with (d := 0) (d' := 0); [rewrite map_length, seq_length; reflexivity|].
  intros i Hi. rewrite map_length, seq_length in Hi.
  set (g := fun i : nat => nth (N.to_nat (0 + N.of_nat i)) d 0).
  rewrite (nth_indep _ 0 (g 0%nat)) by (rewrite map_length, seq_length; lia).
  rewrite map_nth, seq_nth by lia. unfold g. cbn. rewrite Nat2N.id. reflexivity.
Qed.

(** The virtual view of the physical memory. *)
Definition mapped (lg : N) (pt : ptable) (v : N) : Prop := pt (align lg v) <> None.
Definition views (lg : N) (pt : ptable) (m f : bytes) : Prop :=
  forall v, mapped lg pt v -> m (tr (look_drv lg pt) v) = f v.

Lemma tr_drv_inj lg pt : pt_wf lg pt -> frames_disjoint lg pt -> forall v1 v2,
  mapped lg pt v1 -> mapped lg pt v2 -> tr (look_drv lg pt) v1 = tr (look_drv lg pt) v2 -> v1 = v2.
Proof.
  intros Hw Hd v1 v2 M1 M2 E. rewrite !tr_drv_eq_acc in E by assumption. eapply tr_acc_inj; eauto.
Qed.

Lemma range_mapped lg pt a n l : pt_wf lg pt -> split_pages lg pt a n = Ok l ->
  forall v, a <= v < a + n -> mapped lg pt v.
Proof.
  intros Hw Hs v Hv. apply split_tiles in Hs.
  pose proof (tiles_mapped _ (look_drv_linear lg pt Hw) _ _ _ _ Hs v Hv) as Hm.
  unfold mapped. unfold look_drv in Hm. destruct (pt (align lg v)); congruence.
Qed.

(** A host-to-device copy is a write of the flat array, a device-to-host copy a read of it. *)
Lemma h2d_views lg pt a data l m f : pt_wf lg pt -> frames_disjoint lg pt ->
  split_pages lg pt a (len data) = Ok l -> views lg pt m f ->
  views lg pt (h2d (of_list data) l m) (vwrite f a data).
Proof.
  intros Hw Hd Hs Hv v Hm. unfold vwrite. pose proof (split_tiles _ _ _ _ Hs) as HT.
  destruct ((a <=? v) && (v <? a + len data)) eqn:E.
  - rewrite (h2d_hit _ (look_drv_linear lg pt Hw) _ _ _ _ HT) by (eauto using inj_on_drv; lia).
    unfold of_list. f_equal; lia.
  - rewrite (h2d_frame _ (look_drv_linear lg pt Hw) _ _ _ _ HT); [apply Hv; assumption|].
    intros v' Hv' Et. apply (tr_drv_inj lg pt Hw Hd) in Et; [lia| |assumption].
    eapply range_mapped; eauto.
Qed.

Lemma d2h_views lg pt a n l m f : pt_wf lg pt -> split_pages lg pt a n = Ok l -> views lg pt m f ->
  to_list (d2h m l zero) 0 n = vread f a n.
Proof.
  intros Hw Hs Hv. pose proof (split_tiles _ _ _ _ Hs) as HT. unfold vread, to_list.
  apply map_ext_in. intros i Hi. apply in_seq in Hi.
  rewrite (d2h_hit _ (look_drv_linear lg pt Hw) _ _ _ _ HT) by lia.
  replace (a + (0 + N.of_nat i - 0)) with (a + N.of_nat i) by lia. apply Hv.
  eapply range_mapped; eauto. lia.
Qed.

(** The flat reference: what the monitor computes. *)
Fixpoint flat_run (f : bytes) (ops : list sop) : bytes * list (list N) :=
  match ops with
  | [] => (f, [])
  | SH2D a d :: r => let '(f', o) := flat_run (vwrite f a d) r in (f', [] :: o)
  | SD2H a n :: r => let '(f', o) := flat_run f r in (f', vread f a n :: o)
  | _ :: r => flat_run f r
  end.

Fixpoint seq_run (lg : N) (s : sst) (ops : list sop) : option (sst * list (list N)) :=
  match ops with
  | [] => Some (s, [])
  | o :: r => match exec lg s o with
              | Some (s', out) => match seq_run lg s' r with
                                  | Some (s'', outs) => Some (s'', out :: outs)
                                  | None => None
                                  end
              | None => None
              end
  end.

Definition only_copies (ops : list sop) : Prop :=
  Forall (fun o => match o with SH2D _ _ | SD2H _ _ => True | _ => False end) ops.

Lemma seq_refines_flat lg : forall ops s f s' outs,
  only_copies ops -> pt_wf lg (pt_of_list (s_pt s)) -> frames_disjoint lg (pt_of_list (s_pt s)) ->
  views lg (pt_of_list (s_pt s)) (s_mem s) f ->
  seq_run lg s ops = Some (s', outs) ->
  outs = snd (flat_run f ops) /\ s_pt s' = s_pt s /\
  views lg (pt_of_list (s_pt s)) (s_mem s') (fst (flat_run f ops)).
Proof.
  induction ops as [|o r IH]; intros s f s' outs Hc Hw Hd Hv Hr; cbn in Hr.
  - inversion Hr; subst. cbn. auto.
  - inversion Hc as [|? ? Ho Hrest]; subst.
    destruct (exec lg s o) as [[s1 out]|] eqn:E; [|discriminate].
    destruct (seq_run lg s1 r) as [[s2 outs2]|] eqn:E2; [|discriminate]. inversion Hr; subst. clear Hr.
    destruct o as [a d|a n| | |]; try contradiction; cbn in E.
    + destruct (split_pages lg (pt_of_list (s_pt s)) a (len d)) as [l| |] eqn:Es; try discriminate.
      inversion E; subst. clear E. cbn [flat_run].
      destruct (IH (mkS (s_pt s) (h2d (of_list d) l (s_mem s))) (vwrite f a d) _ _ Hrest Hw Hd
                  (h2d_views _ _ _ _ _ _ _ Hw Hd Es Hv) E2) as (A & B & C).
      destruct (flat_run (vwrite f a d) r) as [f' o']. cbn in *. subst. auto.
    + destruct (split_pages lg (pt_of_list (s_pt s)) a n) as [l| |] eqn:Es; try discriminate.
      inversion E; subst. clear E. cbn [flat_run].
      destruct (IH _ f _ _ Hrest Hw Hd Hv E2) as (A & B & C).
      destruct (flat_run f r) as [f' o']. cbn in *. subst.
      rewrite (d2h_views _ _ _ _ _ _ f Hw Es Hv). auto.
Qed.

(** After a page move the copy paths use the new entry. *)
Lemma remap_then_copy lg s k pg a data s1 :
  let s' := mkS ((k, pg) :: s_pt s) (s_mem s) in
  pt_wf lg (pt_of_list (s_pt s')) -> frames_disjoint lg (pt_of_list (s_pt s')) ->
  exec lg s (SRemap k pg) = Some (s', []) /\
  (exec lg s' (SH2D a data) = Some (s1, []) ->
     exec lg s1 (SD2H a (len data)) = Some (s1, data) /\
     (forall x, (forall v, a <= v < a + len data -> tr (look_drv lg (pt_of_list (s_pt s'))) v <> x) ->
                s_mem s1 x = s_mem s x)).
Proof.
  intros s' Hw Hd. split; [reflexivity|]. intros E. cbn in E.
  destruct (split_pages lg (pt_of_list ((k, pg) :: s_pt s)) a (len data)) as [l| |] eqn:Es; try discriminate.
  inversion E; subst. clear E. cbn. rewrite Es. split.
  - f_equal. f_equal. transitivity (to_list (of_list data) 0 (len data)); [|apply to_list_of_list].
    apply to_list_ext. intros i Hi.
    rewrite !N.add_0_l. pose proof (split_tiles _ _ _ _ Es) as HT.
    eapply copy_roundtrip; eauto using look_drv_linear, inj_on_drv.
  - intros x Hx. apply split_tiles in Es. eapply copy_frame; eauto using look_drv_linear.
Qed.
