(** C12 — the invariant of the repaired hand-off protocol ([cfg_fixed]) and
    the proof that it excludes deadlock.  Preservation of the invariant is
    proved in QueueLive.v. *)
From Coq Require Import List NArith Bool Arith Lia.
Import ListNotations.
From RecordUpdate Require Import RecordSet.
Import RecordSetNotations.
From VDrv Require Import Queue Handoff QueueSafety.

Definition epc_handler (p : epc) : bool :=
  match p with EPop | ESend _ | EEmpty _ | EEmptyNotify _ | ERet _ | ERetNotify _ | EQ _ _ | EQNotify _ | EEnd _ => true | _ => false end.
(** the goroutine will execute noMoreEvent() again *)
Definition epc_prereturn (p : epc) : bool :=
  match p with ECheck | ELock => true | _ => epc_handler p end.
Definition epc_preclear (p : epc) : bool :=
  match p with EExit => false | _ => true end.
Definition epc_returned (p : epc) : bool := match p with EReturned => true | _ => false end.
(** Tick will report progress, hence TickLater *)
Definition epc_mp (p : epc) : bool :=
  match p with ESend true | EEmpty true | EEmptyNotify _ | ERet true | ERetNotify _ | EQ _ true | EQNotify _ | EEnd true => true | _ => false end.
(** the running Tick will still look at queue q *)
Definition epc_visits (q : nat) (p : epc) : bool :=
  match p with
  | ESend _ | EEmpty _ | EEmptyNotify _ | ERet _ | ERetNotify _ => true
  | EQ i _ => Nat.leb i q
  | EQNotify i => Nat.ltb i q
  | _ => false
  end.
Definition epc_notifies (q : nat) (p : epc) : bool :=
  match p with ERetNotify i | EQNotify i | EEmptyNotify i => Nat.eqb i q | _ => false end.
Definition epc_index_ok (nq : nat) (p : epc) : bool :=
  match p with ERetNotify i | EQNotify i | EEmptyNotify i | EQ i _ => Nat.ltb i nq | _ => true end.
Definition epc_needs_event (p : epc) : bool := match p with ELock | EPop => true | _ => false end.
Definition epc_at_ret (p : epc) : bool := match p with ESend _ | EEmpty _ | EEmptyNotify _ | ERet _ => true | _ => false end.
(** the running Tick has not finished completeEmptyCopies yet *)
Definition epc_at_empty (p : epc) : bool := match p with ESend _ | EEmpty _ | EEmptyNotify _ => true | _ => false end.
Definition epc_at_send (p : epc) : bool := match p with ESend _ => true | _ => false end.

(** requests built, sent or answered and not yet consumed by the driver *)
Definition flight (s : state) : list nat := empties s ++ tosend s ++ gpu s ++ resp s.

Definition ebool (f : epc -> bool) (e : option epc) : bool :=
  match e with Some p => f p | None => false end.

Definition ra_holds (r : rapc) : bool := match r with RTick | RCont => true | _ => false end.
Definition ra_mid (r : rapc) : bool := match r with RPause | RTick | RCont | RTest => true | _ => false end.
Definition ra_pre_tick (r : rapc) : bool := match r with RPause | RTick => true | _ => false end.


Definition events (s : state) : bool := tick s || nonempty (gpu s).

(** a tick that will look at queue q is certain to happen *)
Definition tick_coming (s : state) (q : nat) : bool :=
  events s || ra_pre_tick (ra s) || ebool (fun p => epc_visits q p || epc_mp p) (eng s).

(** somebody will run the event loop past its emptiness test *)
Definition engine_coming (s : state) : bool :=
  Nat.ltb 0 (ewait s) || ebool epc_prereturn (eng s) || (ebool epc_returned (eng s) && rerun s) || ra_mid (ra s).

Definition ops_ok (nq : nat) (p : list op) : Prop :=
  Forall (fun o => op_ok nq o = true) p /\
  match last p (ODrain 0) with ODrain _ => True | OEnq _ _ => False end.

(** thread t's listener is subscribed to queue q *)
Definition listening (s : state) (q t : nat) : Prop :=
  exists qq, nth_error (queues s) q = Some qq /\ In t (q_lst qq).
(** a waiter on queue q will be notified: the queue is not empty (its Dequeue
    is still to come) or a Dequeue has removed a command and not yet notified *)
Definition wake_ok (s : state) (q : nat) : Prop :=
  exists qq, nth_error (queues s) q = Some qq /\ (q_cmds qq <> [] \/ ebool (epc_notifies q) (eng s) = true).

Definition app_inv (s : state) (t : nat) (a : app) : Prop :=
  let nq := length (queues s) in
  ops_ok nq (a_prog a) /\
  (match a_pc a with
   | AIdle => True
   | AEnqNotify q => q < nq
   | ASignal q | ACheck q | AWait q | AParked q | AClose q => a_closed a = false /\ listening s q t
   | AUnsub q => listening s q t
   end) /\
  (match a_pc a with
   | AParked q => a_tok a = false /\ wake_ok s q
   | AWait q => a_tok a = true \/ wake_ok s q
   | _ => True
   end) /\
  (a_dirty a = true ->
   match a_pc a with
   | AIdle | AEnqNotify _ => a_prog a <> []
   | ASignal _ => True
   | _ => False
   end).

Definition queue_inv (s : state) (q : nat) (qq : queue) : Prop :=
  (q_cmds qq <> [] -> q_running qq = false ->
   tick_coming s q = true \/ exists t a, nth_error (apps s) t = Some a /\ a_dirty a = true) /\
  (q_running qq = true -> In q (flight s)).

Record inv (s : state) : Prop := mkInv {
  i_crash : crashed s = false;
  i_pause : pause s = ebool epc_handler (eng s) || ra_holds (ra s);
  i_pause1 : ebool epc_handler (eng s) && ra_holds (ra s) = false;
  i_run : ewait s + (if ebool epc_preclear (eng s) then 1 else 0) = if erunning s then 1 else 0;
  i_rerun : rerun s = true -> erunning s = true;
  i_events : events s = true -> engine_coming s = true;
  i_need : ebool epc_needs_event (eng s) = true -> events s = true;
  i_index : ebool (epc_index_ok (length (queues s))) (eng s) = true \/ eng s = None;
  i_resp : nonempty (resp s) = true -> tick s || ebool (fun p => epc_at_ret p || epc_mp p) (eng s) = true;
  i_send : nonempty (tosend s) = true -> tick s || ebool (fun p => epc_at_send p || epc_mp p) (eng s) = true;
  i_empty : nonempty (empties s) = true -> tick s || ebool (fun p => epc_at_empty p || epc_mp p) (eng s) = true;
  i_flight : NoDup (flight s) /\
             forall q, In q (flight s) ->
                       exists qq, nth_error (queues s) q = Some qq /\ q_running qq = true /\ q_cmds qq <> [];
  i_req : (forall i qi, nth_error (queues s) i = Some qi -> q_running qi = true -> (q_req qi < next_req s)%N) /\
          (forall i j qi qj, nth_error (queues s) i = Some qi -> nth_error (queues s) j = Some qj ->
                             q_running qi = true -> q_running qj = true -> q_req qi = q_req qj -> i = j);
  i_apps : forall t a, nth_error (apps s) t = Some a -> app_inv s t a;
  i_queues : forall q qq, nth_error (queues s) q = Some qq -> queue_inv s q qq
}.

(* ---------------------------------------------------------------- findCommandByReqID *)

Lemma find_req_some l rid : forall k j, find_req l rid k = Some j ->
  k <= j /\ exists qq, nth_error l (j - k) = Some qq /\ q_running qq = true /\ q_req qq = rid.
Proof.
  induction l as [|x l IH]; simpl; intros k j H; [discriminate|].
  destruct (q_running x && N.eqb (q_req x) rid) eqn:E.
  - injection H as <-. apply andb_true_iff in E. destruct E as (R & E). apply N.eqb_eq in E.
    split; [lia|]. rewrite Nat.sub_diag. exists x. simpl. auto.
  - apply IH in H. destruct H as (Hk & qq & Hn & R & Q). split; [lia|].
    exists qq. replace (j - k) with (S (j - S k)) by lia. simpl. auto.
Qed.

Lemma find_req_exists l rid : forall k i qq, nth_error l i = Some qq -> q_running qq = true -> q_req qq = rid ->
  exists j, find_req l rid k = Some j.
Proof.
  induction l as [|x l IH]; intros k [|i] qq Hn R Q; simpl in *; try discriminate.
  - injection Hn as ->. rewrite R, Q, N.eqb_refl. simpl. eauto.
  - destruct (q_running x && N.eqb (q_req x) rid); eauto.
Qed.

(** With distinct request IDs the look-up finds the queue that issued the request,
    however many contexts and queues come before or after it. *)
Lemma match_response_ok s q qq :
  inv s -> nth_error (queues s) q = Some qq -> q_running qq = true -> match_response s q = Some q.
Proof.
  intros I Hq R. unfold match_response. rewrite Hq.
  destruct (find_req_exists (queues s) (q_req qq) 0 q qq Hq R eq_refl) as (j & F). rewrite F.
  apply find_req_some in F. destruct F as (_ & qj & Hj & Rj & Qj). rewrite Nat.sub_0_r in Hj.
  f_equal. exact (proj2 (i_req s I) j q qj qq Hj Hq Rj R Qj).
Qed.

(* ---------------------------------------------------------------- deadlock freedom *)

Lemma enabled_true c s l : enabled c s l = true <-> exists s', step c s l = Some s'.
Proof.
  unfold enabled. destruct (step c s l); split; intros H; eauto; try discriminate.
  destruct H; discriminate.
Qed.

Lemma stuck_spec c s : stuck c s = true -> forall l, In l (labels s) -> step c s l = None.
Proof.
  unfold stuck. rewrite forallb_forall. intros H l Hl. specialize (H l Hl).
  unfold enabled in H. destruct (step c s l); [discriminate|reflexivity].
Qed.

Lemma in_labels_app s t : t < length (apps s) -> In (TApp t) (labels s).
Proof. intros H. unfold labels. apply in_or_app. left. apply in_map, in_seq. lia. Qed.
Lemma in_labels_ra s : In TRa (labels s).
Proof. unfold labels. apply in_or_app. right. simpl. auto. Qed.
Lemma in_labels_es s : In TEngStart (labels s).
Proof. unfold labels. apply in_or_app. right. simpl. auto. Qed.
Lemma in_labels_eng s : In TEng (labels s).
Proof. unfold labels. apply in_or_app. right. simpl. auto. Qed.
Lemma in_labels_gpu s q : In q (gpu s) -> In (TEngGpu q) (labels s).
Proof. intros H. unfold labels. apply in_or_app. right. simpl. do 3 right. apply in_map. exact H. Qed.

Lemma mem_nat_In t l : mem_nat t l = true <-> In t l.
Proof.
  induction l; simpl; [split; [discriminate|tauto]|].
  rewrite orb_true_iff, Nat.eqb_eq, IHl. tauto.
Qed.
Lemma nth_error_lt_some {A} (l : list A) i : i < length l -> exists x, nth_error l i = Some x.
Proof. intros H. destruct (nth_error l i) eqn:E; eauto. apply nth_error_None in E. lia. Qed.

Lemma app_blocked s t a :
  inv s -> nth_error (apps s) t = Some a -> step cfg_fixed s (TApp t) = None -> ra s = RSelect ->
  (a_pc a = AIdle /\ a_prog a = []) \/ exists q, a_pc a = AParked q.
Proof.
  intros I Ha H R. destruct (i_apps s I t a Ha) as (Hops & Hpc & _ & _).
  unfold step in H. rewrite (i_crash s I) in H. unfold app_step in H. rewrite Ha in H.
  destruct (a_pc a) eqn:P; eauto.
  - destruct (a_prog a) as [|[q cm|q] r] eqn:Pr; auto; exfalso;
      destruct Hops as (Hf & _); inversion Hf as [|? ? Ho _]; subst; simpl in Ho; apply Nat.ltb_lt in Ho;
      destruct (nth_error_lt_some _ _ Ho) as (qq & E); rewrite E in H; discriminate.
  - exfalso. destruct (nth_error_lt_some _ _ Hpc) as (qq & E). rewrite E in H. discriminate.
  - exfalso. rewrite R in H. discriminate.
  - exfalso. destruct Hpc as (_ & qq & E & _). rewrite E in H. discriminate.
  - discriminate.
  - discriminate.
  - exfalso. destruct Hpc as (qq & E & _). rewrite E in H. destruct (mem_nat t (q_lst qq)); discriminate.
Qed.

Theorem inv_not_deadlocked s : inv s -> deadlocked cfg_fixed s = false.
Proof.
  intros I. unfold deadlocked. destruct (stuck cfg_fixed s) eqn:St; [|reflexivity]. simpl.
  apply negb_false_iff.
  pose proof (stuck_spec _ _ St) as N.
  pose proof (N _ (in_labels_ra s)) as Nra.
  pose proof (N _ (in_labels_eng s)) as Neng.
  pose proof (N _ (in_labels_es s)) as Nes.
  unfold step in Nra, Neng, Nes. rewrite (i_crash s I) in *.
  (* the engine goroutine is gone *)
  assert (Eng : eng s = None).
  { destruct (eng s) as [p|] eqn:E; [exfalso|reflexivity].
    pose proof (i_pause s I) as Hp. pose proof (i_need s I) as Hn. pose proof (i_index s I) as Hi.
    rewrite E in *. unfold eng_step in Neng. rewrite E in Neng.
    destruct p; simpl in *; try discriminate.
    - (* ELock *) destruct (pause s) eqn:P; [|discriminate].
      unfold ra_step in Nra. destruct (ra s); simpl in Hp; try discriminate.
    - (* EPop *) destruct (tick s) eqn:T; [discriminate|]. specialize (Hn eq_refl).
      unfold events in Hn. rewrite T in Hn. simpl in Hn. destruct (gpu s) as [|q r] eqn:G; [discriminate|].
      assert (Hq : In q (gpu s)) by (rewrite G; left; reflexivity).
      pose proof (N _ (in_labels_gpu s q Hq)) as Ng. unfold step in Ng. rewrite (i_crash s I), E in Ng.
      apply mem_nat_In in Hq. rewrite Hq in Ng. discriminate.
    - destruct (tosend s); discriminate.
    - destruct (empties s) as [|q' r']; [discriminate|]. destruct (nth_error (queues s) q') as [qq|]; [|discriminate].
      destruct (q_cmds qq); [discriminate|]. destruct (q_running qq); discriminate.
    - destruct Hi as [Hi|Hi]; [|discriminate]. apply Nat.ltb_lt in Hi.
      destruct (nth_error_lt_some _ _ Hi) as (qq & Eq). rewrite Eq in Neng. discriminate.
    - destruct (resp s); [discriminate|]. destruct (match_response s n) as [q'|]; [|discriminate].
      destruct (nth_error (queues s) q') as [qq|]; [|discriminate].
      destruct (q_cmds qq); [discriminate|]. destruct (q_running qq); discriminate.
    - destruct Hi as [Hi|Hi]; [|discriminate]. apply Nat.ltb_lt in Hi.
      destruct (nth_error_lt_some _ _ Hi) as (qq & Eq). rewrite Eq in Neng. discriminate.
    - destruct (nth_error (queues s) i) as [qq|]; [|discriminate].
      destruct (q_cmds qq); [discriminate|]. destruct (q_running qq); [discriminate|]. destruct (c_kind c); discriminate.
    - destruct Hi as [Hi|Hi]; [|discriminate]. apply Nat.ltb_lt in Hi.
      destruct (nth_error_lt_some _ _ Hi) as (qq & Eq). rewrite Eq in Neng. discriminate.
    - destruct (rerun s); discriminate. }
  rewrite Eng in *.
  assert (Ew : ewait s = 0) by (destruct (ewait s); [reflexivity|discriminate]).
  assert (Ra : ra s = RSelect).
  { pose proof (i_pause s I) as Hp. rewrite Eng in Hp. simpl in Hp.
    unfold ra_step in Nra. destruct (ra s); simpl in *; try discriminate; auto.
    rewrite Hp in Nra. discriminate. destruct (erunning s); discriminate. }
  assert (Ev : events s = false).
  { destruct (events s) eqn:E; [|reflexivity]. pose proof (i_events s I E) as H.
    unfold engine_coming in H. rewrite Eng, Ew, Ra in H. discriminate. }
  assert (Rs : resp s = []).
  { pose proof (i_resp s I) as H. rewrite Eng in H. unfold events in Ev. apply orb_false_iff in Ev. destruct Ev as (T & _).
    rewrite T in H. destruct (resp s); [reflexivity|]. specialize (H eq_refl). discriminate. }
  assert (Gp : gpu s = []).
  { unfold events in Ev. apply orb_false_iff in Ev. destruct Ev as (_ & G). destruct (gpu s); [reflexivity|discriminate]. }
  assert (Es : empties s = []).
  { pose proof (i_empty s I) as H. rewrite Eng in H. unfold events in Ev. apply orb_false_iff in Ev. destruct Ev as (T & _).
    rewrite T in H. destruct (empties s); [reflexivity|]. specialize (H eq_refl). discriminate. }
  assert (Ts : tosend s = []).
  { pose proof (i_send s I) as H. rewrite Eng in H. unfold events in Ev. apply orb_false_iff in Ev. destruct Ev as (T & _).
    rewrite T in H. destruct (tosend s); [reflexivity|]. specialize (H eq_refl). discriminate. }
  (* application threads *)
  assert (Ha : forall t a, nth_error (apps s) t = Some a ->
                 (a_pc a = AIdle /\ a_prog a = []) \/ exists q, a_pc a = AParked q).
  { intros t a Ht. apply (app_blocked s t a I Ht); auto. apply N, in_labels_app.
    apply nth_error_Some. congruence. }
  assert (Nd : forall t a, nth_error (apps s) t = Some a -> a_dirty a = true -> False).
  { intros t a Ht D. destruct (i_apps s I t a Ht) as (_ & _ & _ & Hd). specialize (Hd D).
    destruct (Ha t a Ht) as [(P & Pr) | (q & P)]; rewrite P in Hd; auto. }
  unfold all_done. apply forallb_forall. intros a Hin. apply In_nth_error in Hin. destruct Hin as (t & Ht).
  destruct (Ha t a Ht) as [(P & Pr) | (q & P)]; unfold app_done; [rewrite P, Pr; reflexivity|exfalso].
  destruct (i_apps s I t a Ht) as (_ & _ & Hw & _). rewrite P in Hw.
  destruct Hw as (_ & qq & Eq & [Hc | Hn]); [|rewrite Eng in Hn; discriminate].
  destruct (i_queues s I q qq Eq) as (Hwork & Hrun).
  assert (Rn : q_running qq = false).
  { destruct (q_running qq); [|reflexivity]. specialize (Hrun eq_refl). unfold flight in Hrun. rewrite Es, Ts, Gp, Rs in Hrun. destruct Hrun. }
  destruct (Hwork Hc Rn) as [Tc | (t' & a' & Ht' & D)]; [|eapply Nd; eauto].
  unfold tick_coming in Tc. rewrite Ev, Ra, Eng in Tc. discriminate.
Qed.
