(** Executable model of the driver's device-memory management (property C10):
    amd/driver/internal/memoryallocator.go, device.go,
    devicememstateinterface.go (the default list allocator) and the parts of
    amd/driver/api.go, distributor.go, context.go, driver.go that call them.
    The model follows the code after the four repairs recorded in docs/C10.md
    (mirror keyed by (PID, vaddr); Free releases every page of the buffer;
    removeFreedBuffers filters; pages created by Remap / migration record the
    device that owns the physical page).  A Go panic is [None] in the helper
    functions and the [crashed] flag in the state; after a panic the driver is
    dead and its state is not modelled.  uint64 overflow is not modelled
    (addresses stay below 2^45 for every configuration that fits in memory).
    Definitions only; proofs are in AllocProofs.v. *)
From Coq Require Import List NArith Bool Arith.
From RecordUpdate Require Import RecordSet.
Import ListNotations RecordSetNotations.
Open Scope N_scope.

(** * Association lists with the semantics of Go maps *)
Section AList.
  Context {K V : Type} (eqb : K -> K -> bool).
  Fixpoint alookup (k : K) (l : list (K * V)) : option V :=
    match l with
    | [] => None
    | (k', v) :: r => if eqb k k' then Some v else alookup k r
    end.
  (** m[k] = v: replace in place, otherwise append *)
  Fixpoint aset (k : K) (v : V) (l : list (K * V)) : list (K * V) :=
    match l with
    | [] => [(k, v)]
    | (k', v') :: r => if eqb k k' then (k, v) :: r else (k', v') :: aset k v r
    end.
  (** delete(m, k) *)
  Fixpoint adel (k : K) (l : list (K * V)) : list (K * V) :=
    match l with
    | [] => []
    | (k', v') :: r => if eqb k k' then adel k r else (k', v') :: adel k r
    end.
  Definition amem (k : K) (l : list (K * V)) : bool :=
    match alookup k l with Some _ => true | None => false end.
End AList.

Definition key := (N * N)%type.     (* (PID, virtual address) *)
Definition keqb (a b : key) : bool := (fst a =? fst b) && (snd a =? snd b).

(** * Devices *)
Inductive kind := KCpu | KGpu | KUnified.
Definition is_unified (k : kind) : bool := match k with KUnified => true | _ => false end.
Definition is_gpu (k : kind) : bool := match k with KGpu => true | _ => false end.

(** deviceMemoryStateImpl.availablePAddrs is the list
    [d_lo, d_lo+ps, ... (< d_base+d_size)] ++ d_tail: the not yet touched part
    of the initial range followed by the pages given back, in order.  (The CPU
    has 2^20 pages; the range is kept symbolic.) *)
Record dev := mkDev {
  d_kind : kind;
  d_base : N;                (* initialAddress *)
  d_size : N;                (* storageSize *)
  d_lo : N;
  d_tail : list N;
  d_members : list nat;      (* UnifiedGPUIDs / ActualGPUs *)
  d_next : nat               (* nextActualGPUIndex *)
}.
#[export] Instance eta_dev : Settable _ :=
  settable! mkDev <d_kind; d_base; d_size; d_lo; d_tail; d_members; d_next>.

Definition d_hi (d : dev) : N := d_base d + d_size d.

(** noAvailablePAddrs *)
Definition dev_empty (d : dev) : bool :=
  negb (d_lo d <? d_hi d) && match d_tail d with [] => true | _ => false end.

(** mustHaveSpaceLeft + popNextAvailablePAddrs of an ordinary device *)
Definition dev_pop (ps : N) (d : dev) : option (N * dev) :=
  if d_lo d <? d_hi d then Some (d_lo d, d <| d_lo := d_lo d + ps |>)
  else match d_tail d with
       | [] => None
       | p :: r => Some (p, d <| d_tail := r |>)
       end.

(** addSinglePAddr *)
Definition dev_push (p : N) (d : dev) : dev := d <| d_tail := d_tail d ++ [p] |>.

Fixpoint upd_nth {A} (i : nat) (x : A) (l : list A) : list A :=
  match l, i with
  | [], _ => []
  | _ :: r, O => x :: r
  | a :: r, S i' => a :: upd_nth i' x r
  end.

(** Device.allocatePage of an ordinary device with ID i *)
Definition pop_real (ps : N) (i : nat) (l : list dev) : option (N * list dev) :=
  match nth_error l i with
  | None => None
  | Some d => match dev_pop ps d with
              | None => None
              | Some (p, d') => Some (p, upd_nth i d' l)
              end
  end.

Fixpoint pop_n (ps : N) (n : nat) (d : dev) : option (list N * dev) :=
  match n with
  | O => Some ([], d)
  | S n' => match dev_pop ps d with
            | None => None
            | Some (p, d') => match pop_n ps n' d' with
                              | None => None
                              | Some (l, d'') => Some (p :: l, d'')
                              end
            end
  end.

(** Device.allocateMultiplePages of an ordinary device: mustHaveSpaceLeft
    (also for zero pages), then n pops (index panic when the list runs out) *)
Definition multi_real (ps : N) (n : nat) (i : nat) (l : list dev) : option (list N * list dev) :=
  match nth_error l i with
  | None => None
  | Some d => if dev_empty d then None else
              match pop_n ps n d with
              | None => None
              | Some (pas, d') => Some (pas, upd_nth i d' l)
              end
  end.

(** advance nextActualGPUIndex of device i *)
Definition bump (i : nat) (l : list dev) : list dev :=
  match nth_error l i with
  | None => l
  | Some d => upd_nth i (d <| d_next := Nat.modulo (d_next d + 1) (length (d_members d)) |>) l
  end.

(** allocateUnifiedGPUPage: the loop keeps the LAST member of the rotation that
    still has a free page *)
Definition select_member (l : list dev) (u : dev) : option nat :=
  fold_left (fun acc i =>
    match nth_error (d_members u) (Nat.modulo (d_next u + i) (length (d_members u))) with
    | None => acc
    | Some m => match nth_error l m with
                | None => acc
                | Some d => if dev_empty d then acc else Some m
                end
    end) (seq 0 (length (d_members u))) None.

(** Device.allocatePage *)
Definition alloc_page (ps : N) (i : nat) (l : list dev) : option (N * list dev) :=
  match nth_error l i with
  | None => None
  | Some d =>
    if is_unified (d_kind d) then
      match select_member l d with
      | None => None
      | Some m => match pop_real ps m l with
                  | None => None
                  | Some (p, l') => Some (p, bump i l')
                  end
      end
    else pop_real ps i l
  end.

(** Device.allocateMultiplePages *)
Definition alloc_multi (ps : N) (n : nat) (i : nat) (l : list dev) : option (list N * list dev) :=
  match nth_error l i with
  | None => None
  | Some d =>
    if is_unified (d_kind d) then
      match nth_error (d_members d) (d_next d) with
      | None => None
      | Some m => match multi_real ps n m l with
                  | None => None
                  | Some (pas, l') => Some (pas, bump i l')
                  end
      end
    else multi_real ps n i l
  end.

(** deviceIDByPAddr (the Go code ranges over a map; the ranges are disjoint) *)
Fixpoint dev_of_pa_from (i : nat) (l : list dev) (pa : N) : option nat :=
  match l with
  | [] => None
  | d :: r => if (d_base d <=? pa) && (pa <? d_hi d) then Some i
              else dev_of_pa_from (S i) r pa
  end.
Definition dev_of_pa := dev_of_pa_from 0.

Definition push_to (i : nat) (p : N) (l : list dev) : list dev :=
  match nth_error l i with
  | None => l
  | Some d => upd_nth i (dev_push p d) l
  end.

(** * Pages, contexts, state *)
Record page := mkPage { p_pid : N; p_va : N; p_pa : N; p_dev : N; p_unified : bool }.

Definition buffer := (N * N * bool)%type.       (* vAddr, size, freed *)
Record ctx := mkCtx { c_pid : N; c_cur : nat; c_bufs : list buffer }.
#[export] Instance eta_ctx : Settable _ := settable! mkCtx <c_pid; c_cur; c_bufs>.

Record st := mkSt {
  lps : N;                              (* log2PageSize *)
  devs : list dev;                      (* Driver.devices = allocator.devices *)
  total : N;                            (* totalStorageByteSize *)
  mirror : list (key * page);           (* vAddrToPageMapping *)
  pt : list (key * page);               (* the vm.PageTable *)
  allocs : list (key * N);              (* allocatedPageCount *)
  next_va : list (N * N);               (* processMemoryStates[pid].nextVAddr *)
  ctxs : list ctx;                      (* Driver.contexts *)
  next_pid : N;
  crashed : bool;
  g_bufs : list (key * N);              (* ghost: every buffer ever returned *)
  g_leaked : list N                     (* ghost: physical pages dropped by migration preparation *)
}.
#[export] Instance eta_st : Settable _ :=
  settable! mkSt <lps; devs; total; mirror; pt; allocs; next_va; ctxs; next_pid; crashed; g_bufs; g_leaked>.

Definition psz (s : st) : N := 2 ^ lps s.

(** the page table of akita: Insert panics on an existing page, Update and
    Remove on a missing one *)
Definition pt_insert (k : key) (v : page) (l : list (key * page)) : option (list (key * page)) :=
  if amem keqb k l then None else Some (l ++ [(k, v)]).
Definition pt_update (k : key) (v : page) (l : list (key * page)) : option (list (key * page)) :=
  if amem keqb k l then Some (aset keqb k v l) else None.
Definition pt_remove (k : key) (l : list (key * page)) : option (list (key * page)) :=
  if amem keqb k l then Some (adel keqb k l) else None.

Definition num_pages (ps bytes : N) : N := (bytes - 1) / ps + 1.

(** memoryAllocatorImpl.allocatePages: the loop body, k pages starting at va *)
Fixpoint alloc_loop (k : nat) (pid va : N) (dv : nat) (uni : bool) (s : st) : option st :=
  match k with
  | O => Some s
  | S k' =>
    match alloc_page (psz s) dv (devs s) with
    | None => None
    | Some (pa, l') =>
      match dev_of_pa l' pa with
      | None => None
      | Some di =>
        let pg := mkPage pid va pa (N.of_nat di) uni in
        match pt_insert (pid, va) pg (pt s) with
        | None => None
        | Some pt' =>
          alloc_loop k' pid (va + psz s) dv uni
            (s <| devs := l' |> <| pt := pt' |> <| mirror := aset keqb (pid, va) pg (mirror s) |>)
        end
      end
    end
  end.

Definition next_va_of (s : st) (pid : N) : N :=
  match alookup N.eqb pid (next_va s) with Some v => v | None => psz s end.

Definition alloc_pages (n : N) (pid : N) (dv : nat) (uni : bool) (s : st) : option (N * st) :=
  let va := next_va_of s pid in
  match alloc_loop (N.to_nat n) pid va dv uni s with
  | None => None
  | Some s' =>
    Some (va, s' <| allocs := aset keqb (pid, va) n (allocs s') |>
                 <| next_va := aset N.eqb pid (va + psz s * n) (next_va s') |>
                 <| g_bufs := g_bufs s' ++ [((pid, va), n)] |>)
  end.

(** Allocate / AllocateUnified *)
Definition allocate (pid bytes : N) (dv : nat) (uni : bool) (s : st) : option (N * st) :=
  if bytes =? 0 then None else alloc_pages (num_pages (psz s) bytes) pid dv uni s.

(** allocateMultiplePagesWithGivenVAddrs: the loop over the pages.  The
    physical page the virtual page had before goes back to its device. *)
Fixpoint given_loop (pid va : N) (uni : bool) (pas : list N) (s : st) : option st :=
  match pas with
  | [] => Some s
  | pa :: r =>
    match dev_of_pa (devs s) pa with
    | None => None
    | Some di =>
      let pg := mkPage pid va pa (N.of_nat di) uni in
      match pt_update (pid, va) pg (pt s) with
      | None => None
      | Some pt' =>
        let s1 := s <| mirror := aset keqb (pid, va) pg (mirror s) |> <| pt := pt' |> in
        match alookup keqb (pid, va) (mirror s) with
        | None => given_loop pid (va + psz s) uni r s1
        | Some old =>
          match dev_of_pa (devs s) (p_pa old) with
          | None => None
          | Some dj => given_loop pid (va + psz s) uni r
                         (s1 <| devs := push_to dj (p_pa old) (devs s) |>)
          end
        end
      end
    end
  end.

(** Remap: pages pageVAddr, pageVAddr+ps, ... below pageVAddr+byteSize *)
Definition remap_count (ps bytes : N) : N := if bytes =? 0 then 0 else (bytes - 1) / ps + 1.

Definition remap (pid va bytes : N) (dv : nat) (s : st) : option st :=
  match alloc_multi (psz s) (N.to_nat (remap_count (psz s) bytes)) dv (devs s) with
  | None => None
  | Some (pas, l') => given_loop pid va false pas (s <| devs := l' |>)
  end.

(** AllocatePageWithGivenVAddr (page migration).  The previous physical page
    is NOT given back: it is the source of the migration copy; the ghost list
    [g_leaked] remembers it. *)
Definition alloc_given (pid : N) (dv : nat) (va : N) (uni : bool) (s : st) : option (page * st) :=
  match alloc_page (psz s) dv (devs s) with
  | None => None
  | Some (pa, l') =>
    match dev_of_pa l' pa with
    | None => None
    | Some di =>
      let pg := mkPage pid va pa (N.of_nat di) uni in
      match pt_update (pid, va) pg (pt s) with
      | None => None
      | Some pt' =>
        Some (pg, s <| devs := l' |> <| mirror := aset keqb (pid, va) pg (mirror s) |> <| pt := pt' |>
                    <| g_leaked := match alookup keqb (pid, va) (mirror s) with
                                   | Some old => p_pa old :: g_leaked s
                                   | None => g_leaked s
                                   end |>)
      end
    end
  end.

(** removePage *)
Definition remove_page (pid va : N) (s : st) : option st :=
  match alookup keqb (pid, va) (mirror s) with
  | None => None
  | Some pg =>
    match dev_of_pa (devs s) (p_pa pg) with
    | None => None
    | Some di =>
      match pt_remove (p_pid pg, p_va pg) (pt s) with
      | None => None
      | Some pt' => Some (s <| devs := push_to di (p_pa pg) (devs s) |>
                            <| mirror := adel keqb (pid, va) (mirror s) |>
                            <| pt := pt' |>)
      end
    end
  end.

Fixpoint free_loop (k : nat) (pid va : N) (s : st) : option st :=
  match k with
  | O => Some s
  | S k' => match remove_page pid va s with
            | None => None
            | Some s' => free_loop k' pid (va + psz s) s'
            end
  end.

(** memoryAllocatorImpl.Free *)
Definition free (pid ptr : N) (s : st) : option st :=
  match alookup keqb (pid, ptr) (allocs s) with
  | None => None
  | Some n => free_loop (N.to_nat n) pid ptr (s <| allocs := adel keqb (pid, ptr) (allocs s) |>)
  end.

(** distributorImpl.Distribute: the Remap calls it issues, as (addr, bytes,
    index into gpuIDs), and the bytes per GPU it returns *)
Definition upto (n : N) : list N := map N.of_nat (seq 0 (N.to_nat n)).

Definition dist_plan (ps addr bytes ngpu : N) : list (N * N * N) * list N :=
  let np := num_pages ps bytes in
  let per := np / ngpu in
  let use0 := if 0 <? per then np / per else 0 in
  let use := if ngpu <? use0 then ngpu else use0 in
  let rem := np mod ngpu in
  let last := if use =? 0 then 0 else use - 1 in
  (map (fun i => (addr + i * per * ps, per * ps, i)) (upto use) ++
   map (fun i => (addr + (per * use + i) * ps, ps, last)) (upto rem),
   map (fun i => (if i <? use then per * ps else 0) + (if i =? last then rem * ps else 0)) (upto ngpu)).

Fixpoint remap_all (pid : N) (ids : list N) (calls : list (N * N * N)) (s : st) : option st :=
  match calls with
  | [] => Some s
  | (a, b, i) :: r =>
    match nth_error ids (N.to_nat i) with
    | None => None
    | Some dv => match remap pid a b (N.to_nat dv) s with
                 | None => None
                 | Some s' => remap_all pid ids r s'
                 end
    end
  end.

(** Driver.Distribute.  A zero byteSize makes the Go code ask for 2^(64-lps)
    pages; the model treats it as a panic and the harness never issues it. *)
Definition distribute (pid addr bytes : N) (ids : list N) (s : st) : option (list N * st) :=
  match ids with
  | [_] => Some ([bytes], s)
  | _ =>
    if negb (addr mod psz s =? 0) then None
    else if (length ids =? 0)%nat then None
    else if bytes =? 0 then None
    else let '(calls, res) := dist_plan (psz s) addr bytes (N.of_nat (length ids)) in
         match remap_all pid ids calls s with
         | None => None
         | Some s' => Some (res, s')
         end
  end.

(** * The API *)
Inductive op :=
| OInit
| OInitPid (c : N)
| OUnify (ids : list N)
| OSelect (c d : N)
| OAlloc (c bytes : N)
| OAllocU (c bytes : N)
| OFree (c ptr : N)
| ORemap (c addr bytes d : N)
| ODist (c addr bytes : N) (ids : list N)
| OMig (c va gpu : N)          (* preparePageForMigration(va, ctx, gpu) *)
| ORmFreed (c : N).            (* Context.removeFreedBuffers *)

Inductive obs := ORet (l : list N) | OCrash.

Definition crash (s : st) : st * obs := (s <| crashed := true |>, OCrash).

Definition set_ctx (i : nat) (c : ctx) (s : st) : st := s <| ctxs := upd_nth i c (ctxs s) |>.

Definition mark_freed (ptr : N) (l : list buffer) : list buffer :=
  map (fun b => let '(a, sz, f) := b in if a =? ptr then (a, sz, true) else b) l.

Definition all_gpus (l : list dev) (ids : list N) : bool :=
  forallb (fun i => match nth_error l (N.to_nat i) with
                    | Some d => is_gpu (d_kind d)
                    | None => false
                    end) ids.

Definition pt_find (s : st) (pid va : N) : option page :=
  alookup keqb (pid, (va / psz s) * psz s) (pt s).

(** an operation that names a context which does not exist is ignored (this
    only happens in shrunk replays) *)
Definition with_ctx (s : st) (c : N) (f : nat -> ctx -> st * obs) : st * obs :=
  match nth_error (ctxs s) (N.to_nat c) with
  | None => (s, ORet [])
  | Some x => f (N.to_nat c) x
  end.

Definition step (s : st) (o : op) : st * obs :=
  if crashed s then (s, OCrash) else
  match o with
  | OInit =>
    let p := next_pid s + 1 in
    (s <| next_pid := p |> <| ctxs := ctxs s ++ [mkCtx p 1 []] |>, ORet [p])
  | OInitPid c => with_ctx s c (fun _ x =>
    (s <| ctxs := ctxs s ++ [mkCtx (c_pid x) 1 []] |>, ORet [c_pid x]))
  | OUnify ids =>
    if (length ids =? 0)%nat then crash s
    else if negb (all_gpus (devs s) ids) then crash s
    else (s <| devs := devs s ++ [mkDev KUnified (total s) 0 (total s) [] (map N.to_nat ids) 0] |>,
          ORet [N.of_nat (length (devs s))])
  | OSelect c d => with_ctx s c (fun i x =>
    if (length (devs s) <=? N.to_nat d)%nat then crash s
    else (set_ctx i (x <| c_cur := N.to_nat d |>) s, ORet []))
  | OAlloc c bytes => with_ctx s c (fun i x =>
    match allocate (c_pid x) bytes (c_cur x) false s with
    | None => crash s
    | Some (ptr, s') => (set_ctx i (x <| c_bufs := c_bufs x ++ [(ptr, bytes, false)] |>) s', ORet [ptr])
    end)
  | OAllocU c bytes => with_ctx s c (fun i x =>
    match allocate (c_pid x) bytes 1 true s with
    | None => crash s
    | Some (ptr, s') => (set_ctx i (x <| c_bufs := c_bufs x ++ [(ptr, bytes, false)] |>) s', ORet [ptr])
    end)
  | OFree c ptr => with_ctx s c (fun i x =>
    match free (c_pid x) ptr s with
    | None => crash s
    | Some s' => (set_ctx i (x <| c_bufs := mark_freed ptr (c_bufs x) |>) s', ORet [])
    end)
  | ORemap c addr bytes d => with_ctx s c (fun _ x =>
    match remap (c_pid x) addr bytes (N.to_nat d) s with
    | None => crash s
    | Some s' => (s', ORet [])
    end)
  | ODist c addr bytes ids => with_ctx s c (fun _ x =>
    match distribute (c_pid x) addr bytes ids s with
    | None => crash s
    | Some (res, s') => (s', ORet res)
    end)
  | OMig c va gpu => with_ctx s c (fun _ x =>
    match pt_find s (c_pid x) va with
    | None => crash s
    | Some old =>
      match alloc_given (c_pid x) (N.to_nat (gpu + 1)) va true s with
      | None => crash s
      | Some (pg, s') =>
        let pg' := mkPage (p_pid pg) (p_va pg) (p_pa pg) (gpu + 1) (p_unified pg) in
        match pt_update (p_pid pg, p_va pg) pg' (pt s') with
        | None => crash s
        | Some pt' => (s' <| pt := pt' |>, ORet [p_pa pg; p_pa old])
        end
      end
    end)
  | ORmFreed c => with_ctx s c (fun i x =>
    (set_ctx i (x <| c_bufs := filter (fun b => negb (snd b)) (c_bufs x) |>) s, ORet []))
  end.

Definition run (s : st) (ops : list op) : st := fold_left (fun s o => fst (step s o)) ops s.

Fixpoint run_obs (s : st) (ops : list op) : list (obs * N) :=
  match ops with
  | [] => []
  | o :: r => let '(s', ob) := step s o in (ob, N.of_nat (length (pt s'))) :: run_obs s' r
  end.

(** * Initial state: MakeBuilder().Build (the CPU, 4 GiB) then RegisterGPU for
    every GPU (sizes in pages) *)
Definition CPU_BYTES : N := 4 * 2 ^ 30.

Definition reg_dev (k : kind) (size : N) (s : st) : st :=
  s <| devs := devs s ++ [mkDev k (total s) size (total s) [] [] 0] |> <| total := total s + size |>.

Definition init (l : N) (gpus : list N) : st :=
  fold_left (fun s n => reg_dev KGpu (n * 2 ^ l) s) gpus
    (reg_dev KCpu CPU_BYTES (mkSt l [] (2 ^ l) [] [] [] [] [] 0 false [] [])).

(** * Correspondence with a recorded run of the implementation *)
Definition obs_eqb (a b : obs) : bool :=
  match a, b with
  | ORet x, ORet y => if list_eq_dec N.eq_dec x y then true else false
  | OCrash, OCrash => true
  | _, _ => false
  end.

(** first maxn entries of a device's free list and its length *)
Fixpoint range_take (fuel : nat) (ps lo hi : N) : list N :=
  match fuel with
  | O => []
  | S f => if lo <? hi then lo :: range_take f ps (lo + ps) hi else []
  end.
Definition free_count (ps : N) (d : dev) : N :=
  (if d_lo d <? d_hi d then (d_hi d - d_lo d + ps - 1) / ps else 0) + N.of_nat (length (d_tail d)).
Definition free_prefix (maxn : nat) (ps : N) (d : dev) : list N :=
  firstn maxn (range_take maxn ps (d_lo d) (d_hi d) ++ d_tail d).

Definition snap_page := (N * N * N * N * bool)%type.
Definition snap_dev := (N * N * N * list N)%type.

Definition page_ok (s : st) (p : snap_page) : bool :=
  let '(pid, va, pa, dv, u) := p in
  match alookup keqb (pid, va) (pt s) with
  | Some g => (p_pid g =? pid) && (p_va g =? va) && (p_pa g =? pa) && (p_dev g =? dv) && Bool.eqb (p_unified g) u
  | None => false
  end.

Definition dev_ok_snap (ps : N) (d : dev) (x : snap_dev) : bool :=
  let '(b, sz, nf, fl) := x in
  (d_base d =? b) && (d_size d =? sz) && (free_count ps d =? nf) &&
  (if list_eq_dec N.eq_dec (free_prefix 128 ps d) fl then true else false).

Fixpoint forallb2 {A B} (f : A -> B -> bool) (l1 : list A) (l2 : list B) : bool :=
  match l1, l2 with
  | [], [] => true
  | a :: r1, b :: r2 => f a b && forallb2 f r1 r2
  | _, _ => false
  end.

Definition bufs_flat (c : ctx) : list N :=
  flat_map (fun b : buffer => let '(a, sz, f) := b in [a; sz; if f then 1 else 0]) (c_bufs c).

Definition page_eqb (a b : page) : bool :=
  (p_pid a =? p_pid b) && (p_va a =? p_va b) && (p_pa a =? p_pa b) && (p_dev a =? p_dev b) &&
  Bool.eqb (p_unified a) (p_unified b).

Definition final_ok (s : st) (pages : list snap_page) (ds : list snap_dev) (bufs : list (list N)) : bool :=
  (length (pt s) =? length pages)%nat && forallb (page_ok s) pages &&
  forallb2 (dev_ok_snap (psz s)) (devs s) ds &&
  forallb2 (fun c b => if list_eq_dec N.eq_dec (bufs_flat c) b then true else false) (ctxs s) bufs &&
  forallb2 (fun a b => keqb (fst a) (fst b) && page_eqb (snd a) (snd b)) (mirror s) (pt s).

Record case := mkCase {
  k_lps : N; k_buddy : bool; k_gpus : list N;
  k_trace : list (op * obs * N);
  k_pages : list snap_page; k_devs : list snap_dev; k_bufs : list (list N)
}.

Fixpoint first_diff (i : nat) (l1 l2 : list (obs * N)) : option nat :=
  match l1, l2 with
  | [], [] => None
  | (OCrash, _) :: _, (OCrash, _) :: _ => None
  | (a, n) :: l1', (b, m) :: l2' => if obs_eqb a b && (n =? m) then first_diff (S i) l1' l2' else Some i
  | _, _ => Some i
  end.

(** index of the first call whose observation differs; 1000 = the final page
    table, free lists or buffer lists differ *)
(** one pass: compare the observations call by call and keep the state *)
Fixpoint check_trace (i : nat) (s : st) (tr : list (op * obs * N)) : option nat + st :=
  match tr with
  | [] => inr s
  | (o, ob, n) :: r =>
    let '(s', ob') := step s o in
    match ob', ob with
    | OCrash, OCrash => inl None
    | _, _ => if obs_eqb ob' ob && (N.of_nat (length (pt s')) =? n) then check_trace (S i) s' r
              else inl (Some i)
    end
  end.

Definition check_case (c : case) : option nat :=
  match check_trace 0 (init (k_lps c) (k_gpus c)) (k_trace c) with
  | inl r => r
  | inr s => if crashed s then None
             else if final_ok s (k_pages c) (k_devs c) (k_bufs c) then None else Some 1000%nat
  end.

(** (case index, call index) pairs, as N so that they print without scope
    annotations *)
Fixpoint mismatches_from (i : N) (cs : list case) : list (N * N) :=
  match cs with
  | [] => []
  | c :: r => match check_case c with
              | None => mismatches_from (i + 1) r
              | Some k => (i, N.of_nat k) :: mismatches_from (i + 1) r
              end
  end.
Definition mismatches := mismatches_from 0.
