(** A copy command completes exactly once, exactly when its last response — of
    either kind, in any order — has been processed (at the next tick when it
    has no request at all). *)
From Coq Require Import List NArith Bool Arith Lia ZifyN ZifyNat ZifyBool.
From VDrv Require Import CopyCmd.
Import ListNotations.
Open Scope N_scope.

Definition answered (ans : list N) (r : N * qkind) : bool := existsb (N.eqb (fst r)) ans.

Record CInv (s : ccmd) : Prop := {
  ci_nd : NoDup (map fst (cc_all s));
  ci_reqs : cc_reqs s = filter (fun r => negb (answered (cc_ans s) r)) (cc_all s);
  ci_ans : NoDup (cc_ans s) /\ incl (cc_ans s) (map fst (cc_all s));
  ci_empty : cc_empty s = is_nil (cc_all s) && negb (cc_ticked s);
  ci_done : cc_done s = (if is_nil (cc_reqs s) && negb (cc_empty s) then 1 else 0)%nat
}.

Lemma filter_all {A} (f : A -> bool) l : (forall x, f x = true) -> filter f l = l.
Proof. intros H. induction l as [|x r IH]; cbn; [reflexivity|]. rewrite H, IH. reflexivity. Qed.

Lemma filter_twice {A} (f g : A -> bool) l :
  filter f (filter g l) = filter (fun x => g x && f x) l.
Proof. induction l as [|x r IH]; cbn; [reflexivity|]. destruct (g x); cbn; [destruct (f x)|]; congruence. Qed.

Lemma filter_same {A} (f g : A -> bool) l : (forall x, f x = g x) -> filter f l = filter g l.
Proof. intros H. induction l as [|x r IH]; cbn; [reflexivity|]. rewrite H, IH. reflexivity. Qed.

Lemma cstart_inv reqs : NoDup (map fst reqs) -> CInv (cstart reqs).
Proof.
  intros H. constructor; cbn; auto.
  - symmetry. apply filter_all. reflexivity.
  - split; [constructor|intros x []].
  - destruct reqs; reflexivity.
  - destruct reqs; reflexivity.
Qed.

Lemma answered_app ans id r : answered (ans ++ [id]) r = answered ans r || (fst r =? id).
Proof. unfold answered. rewrite existsb_app. cbn. rewrite orb_false_r. reflexivity. Qed.

Lemma lookup_some id l k : lookup_req id l = Some k -> In id (map fst l).
Proof.
  unfold lookup_req. destruct (find _ l) as [r|] eqn:E; [|discriminate]. intros _.
  apply find_some in E as [Hin Hid]. apply N.eqb_eq in Hid. subst. apply in_map. assumption.
Qed.

Lemma cstep_inv s e : CInv s -> cc_crashed (cstep s e) = false -> CInv (cstep s e).
Proof.
  intros H. unfold cstep, cstep_gen. destruct (cc_crashed s) eqn:Ec; [intros; assumption|].
  destruct H as [Hnd Hr [Han Hai] He Hd]. destruct e as [id|].
  - destruct (lookup_req id (cc_reqs s)) as [k|] eqn:El; cbn; [intros _|discriminate].
    assert (Hin : In id (map fst (cc_reqs s))) by (eapply lookup_some; eauto).
    assert (Hnew : ~ In id (cc_ans s)).
    { rewrite Hr in Hin. apply in_map_iff in Hin as (r & <- & Hf). apply filter_In in Hf as [_ Hf].
      apply negb_true_iff in Hf. unfold answered in Hf. intros Hc.
      assert (existsb (N.eqb (fst r)) (cc_ans s) = true); [|congruence].
      apply existsb_exists. exists (fst r). split; [assumption|apply N.eqb_refl]. }
    assert (Hreq : remove_req id (cc_reqs s) =
                   filter (fun r => negb (answered (cc_ans s ++ [id]) r)) (cc_all s)).
    { rewrite Hr. unfold remove_req. rewrite filter_twice. apply filter_same. intros r.
      rewrite answered_app. rewrite negb_orb. reflexivity. }
    constructor; cbn; auto.
    + split.
      * clear - Han Hnew. induction Han as [|x l Hx Hl IH]; cbn; [constructor; [intros []|constructor]|].
        constructor.
        -- rewrite in_app_iff. cbn. intros [Hi|[Hi|[]]]; [contradiction|]. apply Hnew. left. auto.
        -- apply IH. intros Hi. apply Hnew. right. assumption.
      * intros x Hx. apply in_app_iff in Hx as [Hx|[<-|[]]]; [auto|].
        rewrite Hr in Hin. apply in_map_iff in Hin as (r & <- & Hf). apply filter_In in Hf as [Hf _].
        apply in_map. assumption.
    + assert (Hne : cc_empty s = false).
      { rewrite He. rewrite Hr in Hin. destruct (cc_all s); [destruct Hin|reflexivity]. }
      rewrite Hne. cbn. rewrite andb_true_r.
      assert (Hd0 : cc_done s = 0%nat).
      { rewrite Hd. destruct (cc_reqs s); [destruct Hin|reflexivity]. }
      rewrite Hd0. destruct k; cbn; destruct (is_nil (remove_req id (cc_reqs s))); reflexivity.
  - intros _. cbn. destruct (cc_empty s) eqn:Ee; cbn.
    + constructor; cbn; auto.
      * rewrite andb_false_r. reflexivity.
      * rewrite andb_true_r. try rewrite Ee in Hd. cbn in Hd. rewrite andb_false_r in Hd. rewrite Hd.
        destruct (is_nil (cc_reqs s)); reflexivity.
    + constructor; cbn; auto; try (rewrite andb_false_r; reflexivity); try (rewrite Ee in Hd; exact Hd).
Qed.

Lemma crashed_sticky evs : forall s, cc_crashed s = true -> crun s evs = s.
Proof.
  induction evs as [|e r IH]; intros s H; [reflexivity|]. cbn.
  assert (E : cstep_gen true s e = s) by (unfold cstep_gen; rewrite H; reflexivity).
  rewrite E. apply IH. assumption.
Qed.

Lemma crun_inv evs : forall s, CInv s -> cc_crashed (crun s evs) = false -> CInv (crun s evs).
Proof.
  induction evs as [|e r IH]; intros s H Hc; [exact H|].
  change (crun s (e :: r)) with (crun (cstep s e) r) in *.
  destruct (cc_crashed (cstep s e)) eqn:E.
  - rewrite (crashed_sticky r _ E) in Hc. congruence.
  - apply IH; [apply cstep_inv; assumption|assumption].
Qed.

Definition rsp_ids (evs : list cev) : list N :=
  flat_map (fun e => match e with CRsp id => [id] | CTick => [] end) evs.
Definition has_tick (evs : list cev) : bool :=
  existsb (fun e => match e with CTick => true | _ => false end) evs.

Lemma cstep_ghost s e : cc_crashed (cstep s e) = false ->
  cc_all (cstep s e) = cc_all s /\
  cc_ans (cstep s e) = cc_ans s ++ rsp_ids [e] /\
  cc_ticked (cstep s e) = cc_ticked s || has_tick [e].
Proof.
  unfold cstep, cstep_gen. destruct (cc_crashed s) eqn:Ec; [congruence|]. destruct e as [id|]; cbn.
  - destruct (lookup_req id (cc_reqs s)); cbn; [intros _|discriminate].
    rewrite orb_false_r. auto.
  - intros _. rewrite app_nil_r. destruct (cc_empty s); cbn; rewrite orb_true_r; auto.
Qed.

Lemma crun_ghost evs : forall s, cc_crashed (crun s evs) = false ->
  cc_all (crun s evs) = cc_all s /\
  cc_ans (crun s evs) = cc_ans s ++ rsp_ids evs /\
  cc_ticked (crun s evs) = cc_ticked s || has_tick evs.
Proof.
  induction evs as [|e r IH]; intros s Hc.
  - cbn. rewrite app_nil_r, orb_false_r. auto.
  - change (crun s (e :: r)) with (crun (cstep s e) r) in *.
    destruct (cc_crashed (cstep s e)) eqn:E.
    + rewrite (crashed_sticky r _ E) in Hc. congruence.
    + destruct (IH _ Hc) as (A & B & C). destruct (cstep_ghost s e E) as (A' & B' & C').
      rewrite A, B, C, A', B', C'. split; [reflexivity|]. split.
      * rewrite <- app_assoc. f_equal. unfold rsp_ids. cbn. rewrite app_nil_r. reflexivity.
      * unfold has_tick. cbn. rewrite orb_false_r, orb_assoc. reflexivity.
Qed.

Lemma filter_nil_iff {A} (f : A -> bool) l : filter f l = [] <-> forall x, In x l -> f x = false.
Proof.
  induction l as [|x r IH]; cbn; [tauto|]. destruct (f x) eqn:E.
  - split; [discriminate|]. intros H. specialize (H x (or_introl eq_refl)). congruence.
  - rewrite IH. split; intros H y; [intros [<-|Hy]; auto|auto].
Qed.

Lemma completes_iff reqs evs : NoDup (map fst reqs) ->
  let s := crun (cstart reqs) evs in
  cc_crashed s = false ->
  (cc_done s <= 1)%nat /\
  (cc_done s = 1%nat <->
     (forall r, In r reqs -> In (fst r) (rsp_ids evs)) /\ (reqs = [] -> has_tick evs = true)) /\
  NoDup (rsp_ids evs) /\ incl (rsp_ids evs) (map fst reqs).
Proof.
  intros Hnd s Hc. pose proof (crun_inv evs _ (cstart_inv reqs Hnd) Hc) as H.
  destruct (crun_ghost evs _ Hc) as (Ha & Hb & Ht). fold s in H, Ha, Hb, Ht. cbn in Ha, Hb, Ht.
  destruct H as [_ Hr [Han Hai] He Hd]. rewrite Ha, Hb in *. rewrite Ht in He.
  split; [rewrite Hd; destruct (is_nil (cc_reqs s) && negb (cc_empty s)); auto|]. split; [|auto].
  rewrite Hd. assert (Hnil : is_nil (cc_reqs s) = true <-> forall r, In r reqs -> In (fst r) (rsp_ids evs)).
  { rewrite Hr. split.
    - intros Hn r Hin. destruct (filter _ reqs) eqn:Ef; [|discriminate].
      pose proof (proj1 (filter_nil_iff _ _) Ef r Hin) as Hx. apply negb_false_iff in Hx.
      unfold answered in Hx. apply existsb_exists in Hx as (y & Hy & E). apply N.eqb_eq in E. rewrite E. assumption.
    - intros Hall. replace (filter _ reqs) with (@nil (N * qkind)); [reflexivity|]. symmetry.
      apply filter_nil_iff. intros r Hin. apply negb_false_iff. unfold answered. apply existsb_exists.
      exists (fst r). split; [auto|apply N.eqb_refl]. }
  rewrite He. destruct reqs as [|r0 reqs'].
  - cbn [is_nil andb]. destruct (has_tick evs); cbn.
    + destruct (is_nil (cc_reqs s)) eqn:En; cbn.
      * split; [intros _; split; [intros r []|auto]|auto].
      * split; [discriminate|]. intros [Hall _]. apply Hnil in Hall. congruence.
    + rewrite andb_false_r. split; [discriminate|]. intros [_ Hf]. specialize (Hf eq_refl). discriminate.
  - cbn [is_nil andb negb]. rewrite andb_true_r. destruct (is_nil (cc_reqs s)) eqn:En.
    + split; [intros _; split; [apply Hnil; reflexivity|discriminate]|auto].
    + split; [discriminate|]. intros [Hall _]. apply Hnil in Hall. congruence.
Qed.

(** ** the global-storage middleware: flush phase, then the copy *)
Lemma mk_reqs_flush_ids n : map fst (mk_reqs n 0) = map N.of_nat (seq 0 n).
Proof. unfold mk_reqs. cbn. rewrite app_nil_r, map_map. reflexivity. Qed.

Lemma mk_reqs_nodup n : NoDup (map fst (mk_reqs n 0)).
Proof.
  rewrite mk_reqs_flush_ids. generalize 0%nat. induction n as [|n IH]; intros a; cbn; [constructor|].
  constructor; [|apply IH]. intros Hin. apply in_map_iff in Hin as (x & E & Hx). apply in_seq in Hx. lia.
Qed.

Lemma magic_completes_iff nflush evs :
  let s := crun (cstart_magic nflush) evs in
  cc_crashed s = false ->
  (cc_done s <= 1)%nat /\
  (cc_done s = 1%nat <-> forall i, (i < nflush)%nat -> In (N.of_nat i) (rsp_ids evs)).
Proof.
  intros s Hc. subst s. destruct nflush as [|n]; cbn [cstart_magic] in *.
  - change (crun (cstep (cstart []) CTick) evs) with (crun (cstart []) (CTick :: evs)) in *.
    destruct (completes_iff [] (CTick :: evs) (NoDup_nil _) Hc) as (A & B & _).
    split; [exact A|]. split; [intros _ i Hi; lia|]. intros _. apply B. split; [intros r []|reflexivity].
  - destruct (completes_iff (mk_reqs (S n) 0) evs (mk_reqs_nodup (S n)) Hc) as (A & B & _).
    split; [exact A|]. rewrite B. split.
    + intros [Hall _] i Hi. specialize (Hall (N.of_nat i, QFlush)). apply Hall.
      unfold mk_reqs. rewrite app_nil_r. apply in_map_iff. exists i. split; [reflexivity|]. apply in_seq. lia.
    + intros Hall. split; [|discriminate]. intros r Hr. unfold mk_reqs in Hr. rewrite app_nil_r in Hr.
      apply in_map_iff in Hr as (i & <- & Hi). apply in_seq in Hi. apply Hall. lia.
Qed.

(** ** the empty-copy bookkeeping as coded ([kstep]) *)
Lemma kstart_code reqs : kstart false reqs = cstart reqs.
Proof. destruct reqs; reflexivity. Qed.

Lemma kstep_cstep s e : CInv s -> kstep s e = cstep s e.
Proof.
  intros [Hnd Hr Han He Hd]. unfold kstep, cstep, cstep_gen. destruct (cc_crashed s); [reflexivity|].
  destruct e as [id|].
  - destruct (Nat.ltb_spec 0 (cc_done s)) as [Hlt|Hge].
    + assert (En : cc_reqs s = []).
      { rewrite Hd in Hlt. destruct (cc_reqs s); [reflexivity|]. cbn in Hlt. lia. }
      rewrite En. reflexivity.
    + destruct (lookup_req id (cc_reqs s)) as [k|]; [|reflexivity]. destruct k; reflexivity.
  - cbn [andb]. destruct (cc_empty s) eqn:Ee; [|reflexivity].
    assert (En : cc_reqs s = []).
    { rewrite Hr. symmetry in He. apply andb_true_iff in He as [Ha _]. destruct (cc_all s); [reflexivity|discriminate]. }
    rewrite En. reflexivity.
Qed.

Lemma kcrashed_sticky evs : forall s, cc_crashed s = true -> krun s evs = s.
Proof.
  induction evs as [|e r IH]; intros s H; [reflexivity|]. cbn.
  assert (E : kstep s e = s) by (unfold kstep; rewrite H; reflexivity).
  rewrite E. apply IH. assumption.
Qed.

Lemma krun_crun evs : forall s, CInv s -> krun s evs = crun s evs.
Proof.
  induction evs as [|e r IH]; intros s H; [reflexivity|].
  change (krun s (e :: r)) with (krun (kstep s e) r).
  change (crun s (e :: r)) with (crun (cstep s e) r).
  rewrite (kstep_cstep s e H). destruct (cc_crashed (cstep s e)) eqn:E.
  - rewrite (kcrashed_sticky r _ E), (crashed_sticky r _ E). reflexivity.
  - apply IH. apply cstep_inv; assumption.
Qed.

Lemma k_completes_iff reqs evs : NoDup (map fst reqs) ->
  let s := krun (kstart false reqs) evs in
  cc_crashed s = false ->
  (cc_done s <= 1)%nat /\
  (cc_done s = 1%nat <->
     (forall r, In r reqs -> In (fst r) (rsp_ids evs)) /\ (reqs = [] -> has_tick evs = true)) /\
  NoDup (rsp_ids evs) /\ incl (rsp_ids evs) (map fst reqs).
Proof.
  intros Hnd. rewrite kstart_code, (krun_crun evs _ (cstart_inv reqs Hnd)). apply completes_iff. assumption.
Qed.

(** No panic in a protocol-respecting environment: every response answers a
    request of the command, none twice. *)
Lemma k_no_panic reqs evs : NoDup (map fst reqs) ->
  NoDup (rsp_ids evs) -> incl (rsp_ids evs) (map fst reqs) ->
  cc_crashed (krun (kstart false reqs) evs) = false.
Proof.
  intros Hnd. rewrite kstart_code, (krun_crun evs _ (cstart_inv reqs Hnd)).
  assert (G : forall evs s, CInv s -> cc_crashed s = false ->
              NoDup (cc_ans s ++ rsp_ids evs) -> incl (rsp_ids evs) (map fst (cc_all s)) ->
              cc_crashed (crun s evs) = false).
  { clear. induction evs as [|e r IH]; intros s H Hc Hn Hi; [exact Hc|].
    change (crun s (e :: r)) with (crun (cstep s e) r).
    assert (Es : cc_crashed (cstep s e) = false).
    { unfold cstep, cstep_gen. rewrite Hc. destruct e as [id|]; [|cbn [andb]; destruct (cc_empty s); reflexivity].
      destruct (lookup_req id (cc_reqs s)) eqn:El; [reflexivity|]. exfalso.
      assert (Hin : In id (map fst (cc_all s))) by (apply Hi; cbn; left; reflexivity).
      assert (Hna : ~ In id (cc_ans s)).
      { intros Ha. cbn in Hn. apply NoDup_remove_2 in Hn. apply Hn. apply in_app_iff. left. exact Ha. }
      apply in_map_iff in Hin as (q & Eq & Hq).
      assert (Hf : In q (cc_reqs s)).
      { rewrite (ci_reqs s H). apply filter_In. split; [exact Hq|]. apply negb_true_iff.
        destruct (answered (cc_ans s) q) eqn:Ea; [|reflexivity]. exfalso. apply Hna.
        unfold answered in Ea. apply existsb_exists in Ea as (y & Hy & E). apply N.eqb_eq in E. rewrite <- Eq, E. exact Hy. }
      unfold lookup_req in El. destruct (find _ (cc_reqs s)) eqn:Ef; [discriminate|].
      apply (find_none _ _ Ef) in Hf. rewrite Eq, N.eqb_refl in Hf. discriminate. }
    destruct (cstep_ghost s e Es) as (A & B & _).
    apply IH; [apply cstep_inv; assumption|exact Es| |].
    - rewrite B, <- app_assoc. destruct e; cbn in *; exact Hn.
    - rewrite A. intros x Hx. apply Hi. destruct e; cbn; [right|]; exact Hx. }
  intros Hn Hi. apply G; [apply cstart_inv; exact Hnd|reflexivity|exact Hn|exact Hi].
Qed.

Lemma k_zero_byte nflush evs : (0 < nflush)%nat ->
  let s := krun (kstart false (zero_byte_reqs nflush)) evs in
  cc_empty (kstart false (zero_byte_reqs nflush)) = false /\
  ((NoDup (rsp_ids evs) /\ (forall id, In id (rsp_ids evs) -> exists i, (i < nflush)%nat /\ id = N.of_nat i)) ->
     cc_crashed s = false) /\
  (cc_crashed s = false ->
     (cc_done s <= 1)%nat /\
     (cc_done s = 1%nat <-> forall i, (i < nflush)%nat -> In (N.of_nat i) (rsp_ids evs))).
Proof.
  intros Hpos s. subst s. unfold zero_byte_reqs. split; [destruct nflush; [lia|reflexivity]|]. split.
  - intros [Hn Hi]. apply k_no_panic; [apply mk_reqs_nodup|exact Hn|].
    intros id Hid. destruct (Hi id Hid) as (i & Hlt & ->). rewrite mk_reqs_flush_ids.
    apply in_map. apply in_seq. lia.
  - intros Hc. destruct (k_completes_iff (mk_reqs nflush 0) evs (mk_reqs_nodup nflush) Hc) as (A & B & _).
    split; [exact A|]. rewrite B. split.
    + intros [Hall _] i Hi. specialize (Hall (N.of_nat i, QFlush)). apply Hall.
      unfold mk_reqs. rewrite app_nil_r. apply in_map_iff. exists i. split; [reflexivity|]. apply in_seq. lia.
    + intros Hall. split.
      * intros r Hr. unfold mk_reqs in Hr. rewrite app_nil_r in Hr.
        apply in_map_iff in Hr as (i & <- & Hi). apply in_seq in Hi. apply Hall. lia.
      * intros E. destruct nflush; [lia|discriminate].
Qed.
