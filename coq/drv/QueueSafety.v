(** C12 — safety of the command-queue LTS (any configuration, original or
    repaired): per-queue FIFO, one command at a time, isolation of queues. *)
From Coq Require Import List NArith Bool Arith Lia.
Import ListNotations.
From RecordUpdate Require Import RecordSet.
Import RecordSetNotations.
From VDrv Require Import Queue Handoff.

(* ---------------------------------------------------------------- upd *)

Lemma upd_length {A} i (f : A -> A) l : length (upd i f l) = length l.
Proof. revert i; induction l; intros [|i]; simpl; auto. Qed.

Lemma nth_error_upd {A} i j (f : A -> A) l :
  nth_error (upd i f l) j = if Nat.eqb i j then option_map f (nth_error l j) else nth_error l j.
Proof.
  revert i j; induction l as [|a l IH]; intros [|i] [|j]; simpl; auto.
  all: try (rewrite IH; reflexivity); try (destruct (Nat.eqb i j); reflexivity).
Qed.

Lemma nth_error_upd_same {A} i (f : A -> A) l x :
  nth_error l i = Some x -> nth_error (upd i f l) i = Some (f x).
Proof. intros H. rewrite nth_error_upd, Nat.eqb_refl, H. reflexivity. Qed.

Lemma nth_error_upd_other {A} i j (f : A -> A) l :
  i <> j -> nth_error (upd i f l) j = nth_error l j.
Proof. intros H. rewrite nth_error_upd. apply Nat.eqb_neq in H. rewrite H. reflexivity. Qed.

Lemma Forall_upd {A} (P : A -> Prop) i f l :
  Forall P l -> (forall x, nth_error l i = Some x -> P x -> P (f x)) -> Forall P (upd i f l).
Proof.
  revert i; induction l; intros [|i] H Hf; simpl; auto; inversion H; subst; constructor; auto.
  all: try (apply (Hf a); auto; fail).
  all: try (apply IHl; auto; intros x Hx; apply (Hf x); exact Hx).
Qed.

Lemma Forall_nth_error {A} (P : A -> Prop) l i x : Forall P l -> nth_error l i = Some x -> P x.
Proof. intros H Hn. rewrite Forall_forall in H. apply H. eapply nth_error_In; eauto. Qed.

(* ---------------------------------------------------------------- step inversion *)

(** [step_inv H] splits [H : step c s l = Some s'] into one goal per
    transition, with [s'] replaced by the updated record. *)
Ltac destr_match H :=
  match type of H with
  | context [match ?x with _ => _ end] => destruct x eqn:?
  | context [if ?x then _ else _] => destruct x eqn:?
  end.

Ltac step_inv H :=
  unfold step, app_step, ra_step, eng_step, set_eng in H;
  repeat (first [ discriminate H | destr_match H ]);
  injection H as <-.

(* ---------------------------------------------------------------- FIFO *)

Definition ids (l : list cmd) : list N := map c_id l.

Definition q_ok (q : queue) : Prop :=
  q_enq q = q_done q ++ ids (q_cmds q) /\
  q_start q = q_done q ++ (if q_running q then firstn 1 (ids (q_cmds q)) else []) /\
  (q_running q = true -> q_cmds q <> []).

Definition fifo_inv (s : state) : Prop := Forall q_ok (queues s).

Lemma init_ctx_fifo cs ps : fifo_inv (init_ctx cs ps).
Proof.
  unfold fifo_inv, init_ctx; simpl. induction cs; simpl; constructor; auto.
  repeat split; simpl; auto. discriminate.
Qed.

Lemma init_fifo nq ps : fifo_inv (init nq ps).
Proof. apply init_ctx_fifo. Qed.

Lemma step_fifo c s l s' : fifo_inv s -> step c s l = Some s' -> fifo_inv s'.
Proof.
  unfold fifo_inv. intros I H. step_inv H; simpl; auto;
    apply Forall_upd; auto; intros x Hx (E1 & E2 & E3); unfold q_ok, q_append, ids in *; simpl.
  1: { (* Enqueue *)
    rewrite map_app, app_assoc, <- E1. repeat split; auto.
    + destruct (q_running x) eqn:R; auto. specialize (E3 eq_refl).
      destruct (q_cmds x); [congruence|]. simpl in *. exact E2.
    + intros _ Hn. apply app_eq_nil in Hn. destruct Hn; discriminate. }
  all: try (repeat split; auto; fail).
  all: repeat match goal with
         | H1 : nth_error ?l ?i = Some ?a, H2 : nth_error ?l ?i = Some ?b |- _ =>
           assert (a = b) by congruence; subst a; clear H1
         end.
  all: repeat match goal with H : q_cmds _ = _ |- _ => rewrite H in *; clear H end.
  all: repeat match goal with H : q_running _ = _ |- _ => rewrite H in *; clear H end.
  all: simpl in *; rewrite ?app_nil_r in *; repeat split; try discriminate; auto.
  all: try (rewrite E1, <- app_assoc; reflexivity).
  all: try (rewrite E2; reflexivity).
Qed.

Lemma run_fifo c l : forall s s', fifo_inv s -> run c s l = Some s' -> fifo_inv s'.
Proof.
  induction l; simpl; intros s s' I H.
  - injection H as <-. exact I.
  - destruct (step c s a) eqn:E; [|discriminate]. eapply IHl; [|exact H]. eapply step_fifo; eauto.
Qed.

(* ---------------------------------------------------------------- isolation *)

(** the queue whose record a step may modify *)
Definition touched (s : state) (l : tstep) : option nat :=
  match l with
  | TApp t =>
    match nth_error (apps s) t with
    | Some a => match a_pc a, a_prog a with
                | AIdle, OEnq q _ :: _ => Some q
                | AIdle, ODrain q :: _ => Some q
                | AUnsub q, _ => Some q
                | _, _ => None
                end
    | None => None
    end
  | TEng =>
    match eng s with
    | Some (ERet _) => match resp s with q0 :: _ => match_response s q0 | [] => None end
    | Some (EQ i _) => Some i
    | Some (EEmpty _) => hd_error (empties s)
    | _ => None
    end
  | _ => None
  end.

Lemma step_frame c s l s' :
  step c s l = Some s' ->
  forall q, touched s l <> Some q -> nth_error (queues s') q = nth_error (queues s) q.
Proof.
  intros H q T. unfold touched in T. step_inv H; simpl in *; auto;
    repeat match goal with H : _ = _ |- _ => rewrite H in T end; simpl in T;
    apply nth_error_upd_other; congruence.
Qed.

(** what enters a queue: exactly the Enqueue calls addressed to it, in order *)
Definition log_for (q : nat) (lg : list (nat * nat * N)) : list N :=
  map snd (filter (fun e => Nat.eqb (snd (fst e)) q) lg).

Definition log_inv (s : state) : Prop :=
  forall q qq, nth_error (queues s) q = Some qq -> q_enq qq = log_for q (g_log s).

Lemma init_ctx_log cs ps : log_inv (init_ctx cs ps).
Proof.
  intros q qq H. unfold init_ctx in H; simpl in H. apply nth_error_In, in_map_iff in H.
  destruct H as (c & <- & _). reflexivity.
Qed.

Lemma init_log nq ps : log_inv (init nq ps).
Proof. apply init_ctx_log. Qed.

Lemma log_for_app q lg e : log_for q (lg ++ [e]) = log_for q lg ++ (if Nat.eqb (snd (fst e)) q then [snd e] else []).
Proof.
  unfold log_for. rewrite filter_app, map_app. simpl. destruct (Nat.eqb (snd (fst e)) q); reflexivity.
Qed.

Lemma step_log c s l s' : log_inv s -> step c s l = Some s' -> log_inv s'.
Proof.
  intros I H q qq Hq. step_inv H; simpl in *; auto;
    try (rewrite nth_error_upd in Hq; destruct (Nat.eqb _ q) eqn:E;
         [destruct (nth_error (queues s) q) eqn:Eq; simpl in Hq; [|discriminate];
          injection Hq as <-; simpl; try (apply I; assumption) | try (apply I; assumption)]).
  - (* Enqueue, same queue *)
    apply Nat.eqb_eq in E. subst. rewrite log_for_app. simpl. rewrite Nat.eqb_refl.
    rewrite (I _ _ Eq). reflexivity.
  - (* Enqueue, other queue *)
    rewrite log_for_app. simpl. rewrite E, app_nil_r. apply I. exact Hq.
Qed.

Lemma run_log c l : forall s s', log_inv s -> run c s l = Some s' -> log_inv s'.
Proof.
  induction l; simpl; intros s s' I H.
  - injection H as <-. exact I.
  - destruct (step c s a) eqn:E; [|discriminate]. eapply IHl; [|exact H]. eapply step_log; eauto.
Qed.

(** every log entry of thread t was one of t's Enqueue calls, in program order *)
Fixpoint enqs_of (t : nat) (p : list op) : list (nat * nat * N) :=
  match p with
  | [] => []
  | OEnq q c :: r => (t, q, c_id c) :: enqs_of t r
  | ODrain _ :: r => enqs_of t r
  end.

Definition thread_log (t : nat) (lg : list (nat * nat * N)) := filter (fun e => Nat.eqb (fst (fst e)) t) lg.

Definition prog_inv (ps : list (list op)) (s : state) : Prop :=
  length (apps s) = length ps /\
  forall t a p, nth_error (apps s) t = Some a -> nth_error ps t = Some p ->
                enqs_of t p = thread_log t (g_log s) ++ enqs_of t (a_prog a).

Lemma init_ctx_prog cs ps : prog_inv ps (init_ctx cs ps).
Proof.
  split; [simpl; apply map_length|]. intros t a p Ha Hp. simpl in *.
  rewrite nth_error_map, Hp in Ha. injection Ha as <-. reflexivity.
Qed.

Lemma init_prog nq ps : prog_inv ps (init nq ps).
Proof.
  split; [simpl; apply map_length|]. intros t a p Ha Hp. simpl in *.
  rewrite nth_error_map, Hp in Ha. injection Ha as <-. reflexivity.
Qed.

Lemma notify_all_length c ls ap : length (notify_all c ls ap) = length ap.
Proof. revert ap; induction ls; simpl; intros; auto. rewrite IHls, upd_length. reflexivity. Qed.

Lemma notify1_prog c a : a_prog (notify1 c a) = a_prog a.
Proof. unfold notify1. destruct (a_closed a), (a_pc a), (c && negb (a_tok a)); reflexivity. Qed.

Lemma notify_all_prog c ls : forall ap t a, nth_error (notify_all c ls ap) t = Some a ->
  exists a0, nth_error ap t = Some a0 /\ a_prog a = a_prog a0.
Proof.
  induction ls as [|x ls IHls]; simpl; intros ap t a H; eauto.
  apply IHls in H. destruct H as (a1 & H1 & E). rewrite nth_error_upd in H1.
  destruct (Nat.eqb x t); eauto.
  destruct (nth_error ap t); simpl in H1; [|discriminate]. injection H1 as <-.
  eexists; split; eauto. rewrite E. apply notify1_prog.
Qed.

Lemma nth_error_upd_inv {A} i j (f : A -> A) l y :
  nth_error (upd i f l) j = Some y ->
  exists x, nth_error l j = Some x /\ y = if Nat.eqb i j then f x else x.
Proof.
  rewrite nth_error_upd. destruct (Nat.eqb i j); intros H; eauto.
  destruct (nth_error l j); simpl in H; [|discriminate]. injection H as <-. eauto.
Qed.

Lemma thread_log_app t lg e :
  thread_log t (lg ++ [e]) = thread_log t lg ++ (if Nat.eqb (fst (fst e)) t then [e] else []).
Proof. unfold thread_log. rewrite filter_app. simpl. destruct (Nat.eqb (fst (fst e)) t); reflexivity. Qed.

Ltac app_inv Ha :=
  repeat match type of Ha with
  | nth_error (upd _ _ _) _ = Some _ => apply nth_error_upd_inv in Ha; destruct Ha as (? & Ha & ->)
  | nth_error (notify_all _ _ _) _ = Some _ => apply notify_all_prog in Ha; destruct Ha as (? & Ha & ?)
  end.

Lemma step_progs c s l s' : step c s l = Some s' ->
  forall t a', nth_error (apps s') t = Some a' ->
  exists a, nth_error (apps s) t = Some a /\
   ((a_prog a' = a_prog a /\ (g_log s' = g_log s \/ exists e, g_log s' = g_log s ++ [e] /\ Nat.eqb (fst (fst e)) t = false))
    \/ (exists q cm, a_prog a = OEnq q cm :: a_prog a' /\ g_log s' = g_log s ++ [(t, q, c_id cm)])
    \/ (exists q, a_prog a = ODrain q :: a_prog a' /\ g_log s' = g_log s)).
Proof.
  intros H t a' Ha. step_inv H; simpl in *; app_inv Ha; (eexists; split; [exact Ha|]).
  all: try (left; split; [|left]; congruence).
  all: try match goal with |- context [if Nat.eqb ?x ?y then _ else _] => destruct (Nat.eqb x y) eqn:E; [apply Nat.eqb_eq in E; subst|] end; simpl.
  all: try (left; split; [|left]; congruence).
  all: repeat match goal with
         | H1 : nth_error ?l ?i = Some ?a, H2 : nth_error ?l ?i = Some ?b |- _ =>
           assert (a = b) by congruence; subst a; clear H1
         end.
  all: try (right; left; do 2 eexists; split; [eassumption|reflexivity]).
  all: try (right; right; eexists; split; [eassumption|reflexivity]).
  all: try (left; split; [congruence|right; eexists; split; [reflexivity|simpl; exact E]]).
  all: try (match goal with |- context [if a_tok ?x then _ else _] => destruct (a_tok x) end; left; (split; [reflexivity|left; reflexivity])).
Qed.

Lemma step_apps_length c s l s' : step c s l = Some s' -> length (apps s') = length (apps s).
Proof. intros H. step_inv H; simpl; rewrite ?upd_length, ?notify_all_length; auto. Qed.

Lemma step_queues_length c s l s' : step c s l = Some s' -> length (queues s') = length (queues s).
Proof. intros H. step_inv H; simpl; rewrite ?upd_length; auto. Qed.

Lemma step_prog ps c s l s' : prog_inv ps s -> step c s l = Some s' -> prog_inv ps s'.
Proof.
  intros (L & I) H. split.
  - rewrite (step_apps_length _ _ _ _ H). exact L.
  - intros t a' p Ha Hp. destruct (step_progs _ _ _ _ H _ _ Ha) as (a & Ha0 & Hc).
    specialize (I _ _ _ Ha0 Hp).
    destruct Hc as [(E & [-> | (e & -> & Ne)]) | [(q & cm & E & ->) | (q & E & ->)]].
    + rewrite E. exact I.
    + rewrite thread_log_app, Ne, app_nil_r, E. exact I.
    + rewrite thread_log_app. simpl. rewrite Nat.eqb_refl, <- app_assoc. simpl. rewrite I, E. reflexivity.
    + rewrite I, E. reflexivity.
Qed.

Lemma run_prog ps c l : forall s s', prog_inv ps s -> run c s l = Some s' -> prog_inv ps s'.
Proof.
  induction l; simpl; intros s s' I H.
  - injection H as <-. exact I.
  - destruct (step c s a) eqn:E; [|discriminate]. eapply IHl; [|exact H]. eapply step_prog; eauto.
Qed.

(* ---------------------------------------------------------------- contexts *)

Lemma map_upd_same {A B} (g : A -> B) i (f : A -> A) l :
  (forall x, g (f x) = g x) -> map g (upd i f l) = map g l.
Proof.
  intros Hf. revert i; induction l as [|x l IH]; intros [|i]; simpl; auto; rewrite ?Hf, ?IH; reflexivity.
Qed.

(** no transition moves a queue to another context *)
Lemma step_ctx c s l s' : step c s l = Some s' -> map q_ctx (queues s') = map q_ctx (queues s).
Proof.
  intros H. step_inv H; simpl; auto; apply map_upd_same; intros x; reflexivity.
Qed.

Lemma run_ctx c l : forall s s', run c s l = Some s' -> map q_ctx (queues s') = map q_ctx (queues s).
Proof.
  induction l; simpl; intros s s' H.
  - injection H as <-. reflexivity.
  - destruct (step c s a) eqn:E; [|discriminate]. rewrite (IHl _ _ H). eapply step_ctx; eauto.
Qed.

(* ---------------------------------------------------------------- completion clears IsRunning *)

(** Whatever kind of completion removes a command from a queue (a no-op
    executed by processNoopCommand, a response matched by
    processLaunchKernelReturn), the queue is not marked as running afterwards. *)
Lemma step_completion_clears_running c s l s' q qq qq' :
  fifo_inv s -> step c s l = Some s' ->
  nth_error (queues s) q = Some qq -> nth_error (queues s') q = Some qq' ->
  q_done qq' <> q_done qq -> q_running qq' = false.
Proof.
  intros I H Hq Hq' D. step_inv H; simpl in *; try congruence.
  all: apply nth_error_upd_inv in Hq'; destruct Hq' as (x & Hx & ->).
  all: assert (x = qq) by congruence; subst x.
  all: match goal with |- context [if Nat.eqb ?a ?b then _ else _] => destruct (Nat.eqb a b) eqn:E end; simpl in *; try congruence.
  all: apply Nat.eqb_eq in E; subst; congruence.
Qed.
