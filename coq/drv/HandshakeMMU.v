(** The answer to the MMU under back-pressure: Driver.sendToMMU keeps the
    pending vm.PageMigrationRspFromDriver in its slot (toSendToMMU) until the
    one-entry MMU port accepts it.  A tick never drops it: it is sent if the
    port has room, kept if not - unless that very tick processes the last page
    acknowledgement of the NEXT request, whose answer then takes the slot
    (the driver has a single slot; see docs/C19.md). *)
From Coq Require Import ZifyN ZifyNat ZifyBool.
From VDrv Require Import Handshake HandshakeProofs.
From RecordUpdate Require Import RecordSet.
Import RecordSetNotations.
Open Scope N_scope.

Definition last_page_ack (s : hs) : Prop :=
  exists q rest, h_cur s = Some q /\ h_gpu_in s = RMig :: rest /\ h_nmig s - 1 = 0.

(** what the stages before / after sendToMMU leave alone *)
Definition frame (s s' : hs) : Prop :=
  h_tommu s' = h_tommu s /\ h_mmu_out s' = h_mmu_out s /\ h_gpu_in s' = h_gpu_in s /\
  h_nmig s' = h_nmig s /\ h_cur s' = h_cur s /\ h_crashed s' = h_crashed s.

Lemma frame_send_to_gpus s : frame s (send_to_gpus s).
Proof. unfold frame, send_to_gpus. destruct (h_tosend s); cbn; repeat split; reflexivity. Qed.

Lemma frame_send_mig s : frame s (send_mig s).
Proof. unfold frame, send_mig. destruct (h_migq s); [|destruct (h_one s)]; cbn; repeat split; reflexivity. Qed.

Lemma send_to_mmu_spec s m : h_tommu s = Some m ->
  let s' := send_to_mmu s in
  h_gpu_in s' = h_gpu_in s /\ h_nmig s' = h_nmig s /\ h_cur s' = h_cur s /\ h_crashed s' = h_crashed s /\
  ((length (h_mmu_out s) < 1)%nat -> h_tommu s' = None /\ h_mmu_out s' = h_mmu_out s ++ [m]) /\
  ((1 <= length (h_mmu_out s))%nat -> s' = s).
Proof.
  intros E. unfold send_to_mmu. rewrite E.
  destruct (Nat.ltb (length (h_mmu_out s)) 1) eqn:L; cbn; repeat split; auto; try lia.
Qed.

Lemma process_return_slot s :
  let s' := process_return s in
  h_mmu_out s' = h_mmu_out s /\ (h_tommu s' = h_tommu s \/ last_page_ack s).
Proof.
  unfold process_return. destruct (h_gpu_in s) as [|r rest] eqn:Eg; [cbn; auto|].
  destruct r, (h_cur s) as [q|] eqn:Ec; cbn; auto.
  - destruct (h_ndrain s - 1 =? 0); cbn; auto.
    unfold shoot_reqs. cbn. destruct (forallb _ _); cbn; auto.
  - destruct (h_nshoot s - 1 =? 0); cbn; auto.
    unfold page_reqs. cbn. destruct (in_range _ _); cbn; auto.
  - destruct (h_nmig s - 1 =? 0) eqn:En; cbn; auto.
    split; auto. right. exists q, rest. apply N.eqb_eq in En. auto.
  - destruct (h_nrestart s - 1 =? 0); cbn; auto.
  - destruct (h_nrdma s - 1 =? 0); cbn; auto.
Qed.

Lemma parse_slot s : h_tommu (parse_from_mmu s) = h_tommu s /\ h_mmu_out (parse_from_mmu s) = h_mmu_out s.
Proof. unfold parse_from_mmu. destruct (h_handling s); [auto|]. destruct (h_mmu_in s); cbn; auto. Qed.

Theorem completion_retried_until_sent : forall s m,
  h_crashed s = false -> h_tommu s = Some m ->
  let s' := htick s in
  (* the port has room: the answer goes out, after what the port already holds *)
  ((length (h_mmu_out s) < 1)%nat -> h_mmu_out s' = h_mmu_out s ++ [m]) /\
  (* the port is full: nothing is sent, and the answer stays in its slot *)
  ((1 <= length (h_mmu_out s))%nat ->
     h_mmu_out s' = h_mmu_out s /\ (h_tommu s' = Some m \/ last_page_ack s)).
Proof.
  intros s m Hc Hm. cbv zeta. unfold htick, seq2.
  destruct (frame_send_to_gpus s) as (A1 & A2 & A3 & A4 & A5 & A6).
  set (s1 := send_to_gpus s) in *. rewrite A6, Hc.
  assert (Hm1 : h_tommu s1 = Some m) by congruence.
  destruct (send_to_mmu_spec s1 m Hm1) as (B3 & B4 & B5 & B6 & Bsend & Bfull).
  set (s2 := send_to_mmu s1) in *. rewrite B6, A6, Hc.
  destruct (frame_send_mig s2) as (C1 & C2 & C3 & C4 & C5 & C6).
  set (s3 := send_mig s2) in *. rewrite C6, B6, A6, Hc.
  destruct (process_return_slot s3) as (D1 & D2).
  set (s4 := process_return s3) in *.
  assert (Hout : forall s5, s5 = s4 \/ s5 = parse_from_mmu s4 ->
            h_mmu_out s5 = h_mmu_out s2 /\ (h_tommu s5 = h_tommu s2 \/ last_page_ack s)).
  { intros s5 [->| ->].
    - split; [congruence|]. destruct D2 as [D2|(q & rest & L1 & L2 & L3)]; [left; congruence|].
      right. exists q, rest. repeat split; congruence.
    - destruct (parse_slot s4) as [P1 P2]. split; [congruence|].
      destruct D2 as [D2|(q & rest & L1 & L2 & L3)]; [left; congruence|].
      right. exists q, rest. repeat split; congruence. }
  assert (H5 : h_mmu_out (if h_crashed s4 then s4 else parse_from_mmu s4) = h_mmu_out s2 /\
               (h_tommu (if h_crashed s4 then s4 else parse_from_mmu s4) = h_tommu s2 \/ last_page_ack s)).
  { apply Hout. destruct (h_crashed s4); auto. }
  destruct H5 as [H5 H6]. split.
  - intros L. rewrite H5. rewrite <- A2 in L. destruct (Bsend L) as [_ E]. rewrite E, A2. reflexivity.
  - intros L. rewrite <- A2 in L. rewrite (Bfull L) in *. split; [congruence|].
    destruct H6 as [H6|H6]; [left; congruence|right; exact H6].
Qed.

(** no other event touches the slot; only the MMU side empties the port *)
Lemma slot_only_changed_by_tick s e : e <> HTick -> h_tommu (fst (hstep s e)) = h_tommu s.
Proof.
  intros He. unfold hstep. destruct (h_crashed s); [reflexivity|].
  destruct e as [|q| | |r]; try congruence;
    repeat (match goal with |- context [match ?x with _ => _ end] => destruct x end); reflexivity.
Qed.
