(** C12 — the driver as a labelled transition system: application threads,
    the runAsync goroutine, engine goroutines (runEngine + SerialEngine.Run +
    Driver.Tick).  Executable definitions only.

    One transition per yield point of the Go code (amd/driver/api.go
    DrainCommandQueue, commandqueue.go Enqueue/Dequeue/Unsubscribe/Wait,
    driver.go runAsync/runEngine/Tick/processNewCommandFromCmdQueue, akita
    sim/serialengine.go Run/Pause/Continue, sim/ticker.go TickLater).

    Channels: enqueueSignal has capacity 0 (rendezvous between ASignal and
    RSelect); listener.signal has capacity 0 (original) or 1 ([cap1]).
    Mutexes: SerialEngine.pauseLock is the field [pause]; Driver.engineMutex
    (with SerialEngine.singleRunLock nested in it, same holder) is held
    exactly when [eng] is [Some _]; engineRunningMutex protects the two
    sections RTest and EReturned, which contain no blocking operation and are
    one step each; commandsMutex/listenerMutex: see Queue.v.
    [fix2] selects the repaired runEngine/runAsync (rerun flag). *)
From Coq Require Import List NArith Bool Arith.
Import ListNotations.
From RecordUpdate Require Import RecordSet.
Import RecordSetNotations.
From VDrv Require Import Queue.

Record cfg := mkCfg { cap1 : bool; fix2 : bool }.
Definition cfg_orig : cfg := mkCfg false false.
Definition cfg_fixed : cfg := mkCfg true true.

(** runAsync *)
Inductive rapc :=
| RTop      (* top of the for loop *)
| RSelect   (* blocked in select {driverStopped, enqueueSignal} *)
| RPause    (* received; about to Engine.Pause() *)
| RTick     (* paused; about to TickLater() *)
| RCont     (* about to Engine.Continue() *)
| RTest.    (* about to lock engineRunningMutex and test engineRunning *)

(** the goroutine that holds engineMutex: runEngine -> Engine.Run -> Handle ->
    Driver.Tick *)
Inductive epc :=
| ECheck               (* Run: about to test noMoreEvent() *)
| ELock                (* Run: saw an event, about to pauseLock.Lock() *)
| EPop                 (* Run: holds pauseLock, about to pop and handle *)
| ESend (mp : bool)    (* Tick: about to sendToGPUs *)
| EEmpty (mp : bool)   (* the copy middleware's Tick: completeEmptyCopies, next entry *)
| EEmptyNotify (q : nat) (* Dequeue in completeMemCopyH2D/D2H of an empty copy: removed, about to notify *)
| ERet (mp : bool)     (* Tick: about to processReturnReq *)
| ERetNotify (q : nat) (* Dequeue in processLaunchKernelReturn: removed, about to notify *)
| EQ (i : nat) (mp : bool) (* processNewCommandFromCmdQueue(queue i) *)
| EQNotify (i : nat)   (* Dequeue in processNoopCommand: removed, about to notify *)
| EEnd (mp : bool)     (* Tick returned madeProgress = mp; about to TickLater/unlock *)
| EReturned            (* Run returned; about to lock engineRunningMutex *)
| EExit.               (* about to release engineMutex (deferred) *)

Record state := mkState {
  apps : list app;
  queues : list queue;     (* in the order Driver.Tick visits them *)
  ra : rapc;
  eng : option epc;        (* the engine goroutine inside engineMutex *)
  ewait : nat;             (* engine goroutines blocked on engineMutex.Lock *)
  edone : nat;             (* engine goroutines that have exited *)
  pause : bool;            (* SerialEngine.pauseLock is held *)
  erunning : bool;         (* Driver.engineRunning *)
  rerun : bool;            (* repaired code only: a signal arrived while the engine was running *)
  tick : bool;             (* a tick event of the driver is in the event queue *)
  tosend : list nat;       (* Driver.requestsToSend: requests built by processNewCommand, sent by the next Ticks *)
  empties : list nat;      (* defaultMemoryCopyMiddleware.emptyCopies: started copies that wait for no request *)
  gpu : list nat;          (* queues with a request being served: one pending event each *)
  resp : list nat;         (* responses waiting in the driver's GPU port (by issuing queue) *)
  next_req : N;            (* sim.GetIDGenerator(): next fresh request ID *)
  mw0 : bool;              (* defaultMemoryCopyMiddleware.cyclesLeft is still its zero value: the
                              middleware's first Tick() reports progress (quirk of builder.go) *)
  crashed : bool;          (* a Go panic was reached *)
  g_log : list (nat * nat * N)  (* ghost: (thread, queue, id) of every Enqueue, in order *)
}.
#[export] Instance eta_state : Settable _ :=
  settable! mkState <apps; queues; ra; eng; ewait; edone; pause; erunning; rerun; tick; tosend; empties; gpu; resp; next_req; mw0; crashed; g_log>.

(** queues are listed context by context; [cs] gives the context of each *)
Definition init_ctx (cs : list nat) (progs : list (list op)) : state :=
  mkState (map init_app progs) (map empty_queue_in cs) RTop None 0 0 false false false false [] [] [] [] 1%N true false [].

(** the harness' layout: one context for one queue, otherwise two contexts,
    the first half of the queues in the first one *)
Definition default_ctxs (nq : nat) : list nat :=
  map (fun i => if Nat.leb nq 1 then 0 else (i * 2) / nq) (seq 0 nq).
Definition init (nq : nat) (progs : list (list op)) : state := init_ctx (default_ctxs nq) progs.

(** the response that was sent for queue q's request carries that request's ID;
    processLaunchKernelReturn looks the command up again with findCommandByReqID *)
Definition match_response (s : state) (q : nat) : option nat :=
  match nth_error (queues s) q with
  | Some qq => find_req (queues s) (q_req qq) 0
  | None => None
  end.

Inductive tstep :=
| TApp (t : nat)     (* application thread t *)
| TRa                (* runAsync *)
| TEngStart          (* a waiting engine goroutine acquires engineMutex *)
| TEng               (* the engine goroutine; at EPop: handle the driver's tick event *)
| TEngGpu (q : nat). (* the engine goroutine at EPop: handle the response event of queue q *)

Definition eq_or_end (s : state) (i : nat) (mp : bool) : epc :=
  if Nat.ltb i (length (queues s)) then EQ i mp else EEnd mp.

Definition app_step (c : cfg) (s : state) (t : nat) : option state :=
  match nth_error (apps s) t with
  | None => None
  | Some a =>
    match a_pc a with
    | AIdle =>
      match a_prog a with
      | [] => None
      | OEnq q cm :: rest =>
        match nth_error (queues s) q with
        | None => None
        | Some _ =>
          Some (s <| queues := upd q (q_append cm) (queues s) |>
                  <| apps := upd t (fun a => a <| a_pc := AEnqNotify q |> <| a_prog := rest |>
                                               <| a_dirty := true |>) (apps s) |>
                  <| g_log := g_log s ++ [(t, q, c_id cm)] |>)
        end
      | ODrain q :: rest =>
        match nth_error (queues s) q with
        | None => None
        | Some _ =>
          Some (s <| queues := upd q (fun qq => qq <| q_lst := q_lst qq ++ [t] |>) (queues s) |>
                  <| apps := upd t (fun a => a <| a_pc := ASignal q |> <| a_prog := rest |>
                                               <| a_tok := false |> <| a_closed := false |>) (apps s) |>)
        end
      end
    | AEnqNotify q =>
      match nth_error (queues s) q with
      | None => None
      | Some qq =>
        Some (s <| apps := upd t (fun a => a <| a_pc := AIdle |>)
                               (notify_all (cap1 c) (q_lst qq) (apps s)) |>)
      end
    | ASignal q =>
      match ra s with
      | RSelect =>
        Some (s <| ra := RPause |>
                <| apps := upd t (fun a => a <| a_pc := ACheck q |> <| a_dirty := false |>) (apps s) |>)
      | _ => None
      end
    | ACheck q =>
      match nth_error (queues s) q with
      | None => None
      | Some qq =>
        Some (s <| apps := upd t (fun a => a <| a_pc := match q_cmds qq with
                                                        | [] => AClose q
                                                        | _ :: _ => AWait q
                                                        end |>) (apps s) |>)
      end
    | AWait q =>
      Some (s <| apps := upd t (fun a => if a_tok a
                                         then a <| a_pc := ACheck q |> <| a_tok := false |>
                                         else a <| a_pc := AParked q |>) (apps s) |>)
    | AParked _ => None
    | AClose q =>
      Some (s <| apps := upd t (fun a => a <| a_pc := AUnsub q |> <| a_closed := true |>) (apps s) |>)
    | AUnsub q =>
      match nth_error (queues s) q with
      | None => None
      | Some qq =>
        if mem_nat t (q_lst qq)
        then Some (s <| queues := upd q (fun qq => qq <| q_lst := remove_first t (q_lst qq) |>) (queues s) |>
                     <| apps := upd t (fun a => a <| a_pc := AIdle |> <| a_ret := S (a_ret a) |>) (apps s) |>)
        else Some (s <| crashed := true |>)   (* panic("not subscribed") *)
      end
    end
  end.

Definition ra_step (c : cfg) (s : state) : option state :=
  match ra s with
  | RTop => Some (s <| ra := RSelect |>)
  | RSelect => None
  | RPause => if pause s then None else Some (s <| pause := true |> <| ra := RTick |>)
  | RTick => Some (s <| tick := true |> <| ra := RCont |>)
  | RCont => Some (s <| pause := false |> <| ra := RTest |>)
  | RTest =>
    if erunning s
    then Some (s <| rerun := if fix2 c then true else rerun s |> <| ra := RTop |>)
    else Some (s <| erunning := true |> <| ewait := S (ewait s) |> <| ra := RTop |>)
  end.

Definition set_eng (p : epc) (s : state) : state := s <| eng := Some p |>.

Definition eng_step (c : cfg) (s : state) : option state :=
  match eng s with
  | None => None
  | Some pc =>
    match pc with
    | ECheck =>
      Some (set_eng (if tick s || nonempty (gpu s) then ELock else EReturned) s)
    | ELock => if pause s then None else Some (set_eng EPop (s <| pause := true |>))
    | EPop => if tick s then Some (set_eng (ESend (mw0 s)) (s <| tick := false |> <| mw0 := false |>)) else None
    | ESend mp =>                                   (* sendToGPUs: at most one request per tick *)
      match tosend s with
      | [] => Some (set_eng (EEmpty mp) s)
      | q :: r => Some (set_eng (EEmpty true) (s <| tosend := r |> <| gpu := gpu s ++ [q] |>))
      end
    | EEmpty mp =>                                  (* completeEmptyCopies: all of them in this Tick *)
      match empties s with
      | [] => Some (set_eng (ERet mp) s)
      | q :: r =>
        match nth_error (queues s) q with
        | None => Some (s <| crashed := true |>)
        | Some qq =>
          match q_cmds qq with
          | cm :: rest =>
            if q_running qq   (* always set here (invariant); the Go code does not test it *)
            then Some (set_eng (EEmptyNotify q)
                   (s <| empties := r |>
                      <| queues := upd q (fun qq => qq <| q_cmds := rest |> <| q_running := false |>
                                                      <| q_done := q_done qq ++ [c_id cm] |>) (queues s) |>))
            else Some (s <| crashed := true |>)
          | [] => Some (s <| crashed := true |>)      (* Dequeue of an empty queue: index out of range *)
          end
        end
      end
    | EEmptyNotify q =>
      match nth_error (queues s) q with
      | None => None
      | Some qq =>
        Some (set_eng (EEmpty true) (s <| apps := notify_all (cap1 c) (q_lst qq) (apps s) |>))
      end
    | ERet mp =>
      match resp s with
      | [] => Some (set_eng (eq_or_end s 0 mp) s)
      | q0 :: r =>
        match match_response s q0 with
        | None => Some (s <| crashed := true |>)      (* panic("cannot find command") *)
        | Some q =>
        match nth_error (queues s) q with
        | None => Some (s <| crashed := true |>)
        | Some qq =>
          match q_cmds qq with
          | cm :: rest =>
            if q_running qq
            then Some (set_eng (ERetNotify q)
                   (s <| resp := r |>
                      <| queues := upd q (fun qq => qq <| q_cmds := rest |> <| q_running := false |>
                                                      <| q_done := q_done qq ++ [c_id cm] |>) (queues s) |>))
            else Some (s <| crashed := true |>)
          | [] => Some (s <| crashed := true |>)
          end
        end
        end
      end
    | ERetNotify q =>
      match nth_error (queues s) q with
      | None => None
      | Some qq =>
        Some (set_eng (eq_or_end s 0 true) (s <| apps := notify_all (cap1 c) (q_lst qq) (apps s) |>))
      end
    | EQ i mp =>
      match nth_error (queues s) i with
      | None => Some (set_eng (EEnd mp) s)
      | Some qq =>
        match q_cmds qq with
        | [] => Some (set_eng (eq_or_end s (S i) mp) s)
        | cm :: rest =>
          if q_running qq then Some (set_eng (eq_or_end s (S i) mp) s)
          else match c_kind cm with
               | Noop =>
                 Some (set_eng (EQNotify i)
                   (s <| queues := upd i (fun qq => qq <| q_cmds := rest |>
                                                    <| q_start := q_start qq ++ [c_id cm] |>
                                                    <| q_done := q_done qq ++ [c_id cm] |>) (queues s) |>))
               | Async =>
                 Some (set_eng (eq_or_end s (S i) true)
                   (s <| queues := upd i (fun qq => qq <| q_running := true |> <| q_req := next_req s |>
                                                    <| q_start := q_start qq ++ [c_id cm] |>) (queues s) |>
                      <| next_req := N.succ (next_req s) |>
                      <| tosend := tosend s ++ [i] |>))
               | Empty =>    (* processMemCopy*Command: no request; cyclesLeft := cyclesPer*2* (0): mw0 again *)
                 Some (set_eng (eq_or_end s (S i) true)
                   (* q_req: a fresh tag no response will ever carry (the Go command has no request at all) *)
                   (s <| queues := upd i (fun qq => qq <| q_running := true |> <| q_req := next_req s |>
                                                    <| q_start := q_start qq ++ [c_id cm] |>) (queues s) |>
                      <| next_req := N.succ (next_req s) |>
                      <| empties := empties s ++ [i] |> <| mw0 := true |>))
               end
        end
      end
    | EQNotify i =>
      match nth_error (queues s) i with
      | None => None
      | Some qq =>
        Some (set_eng (eq_or_end s (S i) true) (s <| apps := notify_all (cap1 c) (q_lst qq) (apps s) |>))
      end
    | EEnd mp => Some (set_eng ECheck (s <| tick := tick s || mp |> <| pause := false |>))
    | EReturned =>
      if fix2 c && rerun s
      then Some (set_eng ECheck (s <| rerun := false |>))
      else Some (set_eng EExit (s <| erunning := false |>))
    | EExit => Some (s <| eng := None |> <| edone := S (edone s) |>)
    end
  end.

Definition step (c : cfg) (s : state) (l : tstep) : option state :=
  if crashed s then None
  else match l with
       | TApp t => app_step c s t
       | TRa => ra_step c s
       | TEngStart =>
         match eng s, ewait s with
         | None, S n => Some (s <| eng := Some ECheck |> <| ewait := n |>)
         | _, _ => None
         end
       | TEng => eng_step c s
       | TEngGpu q =>
         match eng s with
         | Some EPop =>
           if mem_nat q (gpu s)
           then Some (set_eng (EEnd false)
                  (s <| gpu := remove_first q (gpu s) |> <| resp := resp s ++ [q] |> <| tick := true |>))
           else None
         | _ => None
         end
       end.

Fixpoint run (c : cfg) (s : state) (l : list tstep) : option state :=
  match l with
  | [] => Some s
  | x :: r => match step c s x with Some s' => run c s' r | None => None end
  end.

Definition enabled (c : cfg) (s : state) (l : tstep) : bool :=
  match step c s l with Some _ => true | None => false end.

Definition labels (s : state) : list tstep :=
  map TApp (seq 0 (length (apps s))) ++ [TRa; TEngStart; TEng] ++ map TEngGpu (gpu s).

Definition app_done (a : app) : bool :=
  match a_pc a, a_prog a with AIdle, [] => true | _, _ => false end.
Definition all_done (s : state) : bool := forallb app_done (apps s).

(** no thread can take a step *)
Definition stuck (c : cfg) (s : state) : bool := forallb (fun l => negb (enabled c s l)) (labels s).
(** ... although some application thread has not returned from its calls *)
Definition deadlocked (c : cfg) (s : state) : bool := stuck c s && negb (all_done s).

(** a thread is blocked in <-signal on a queue that is empty *)
Definition lost_waiter (s : state) : bool :=
  existsb (fun a => match a_pc a with
                    | AParked q => match nth_error (queues s) q with
                                   | Some qq => Nat.eqb (length (q_cmds qq)) 0
                                   | None => false
                                   end
                    | _ => false
                    end) (apps s).

(** programs: every queue index exists; a thread that enqueues later drains
    (the API wakes the driver only from DrainCommandQueue) *)
Definition op_ok (nq : nat) (o : op) : bool :=
  match o with OEnq q _ => Nat.ltb q nq | ODrain q => Nat.ltb q nq end.
Definition prog_ok (nq : nat) (p : list op) : bool :=
  forallb (op_ok nq) p && match last p (ODrain 0) with ODrain _ => true | OEnq _ _ => false end.
Definition progs_ok (nq : nat) (ps : list (list op)) : bool := forallb (prog_ok nq) ps.

(* ---------------------------------------------------------------- *)
(** * Observations compared with the real driver after every granted step *)

Definition apc_code (p : apc) : N * N :=
  match p with
  | AIdle => (0, 0) | AEnqNotify q => (1, N.of_nat q) | ASignal q => (2, N.of_nat q)
  | ACheck q => (3, N.of_nat q) | AWait q => (4, N.of_nat q) | AParked q => (5, N.of_nat q)
  | AClose q => (6, N.of_nat q) | AUnsub q => (7, N.of_nat q)
  end%N.
Definition rapc_code (p : rapc) : N :=
  match p with RTop => 0 | RSelect => 1 | RPause => 2 | RTick => 3 | RCont => 4 | RTest => 5 end%N.
Definition epc_code (p : option epc) : N * N :=
  match p with
  | None => (0, 0)
  | Some ECheck => (1, 0) | Some ELock => (2, 0) | Some EPop => (3, 0) | Some (ESend _) => (11, 0) | Some (EEmpty _) => (12, 0) | Some (EEmptyNotify q) => (13, N.of_nat q)
  | Some (ERet _) => (4, 0) | Some (ERetNotify q) => (5, N.of_nat q)
  | Some (EQ i _) => (6, N.of_nat i) | Some (EQNotify i) => (7, N.of_nat i)
  | Some (EEnd _) => (8, 0) | Some EReturned => (9, 0) | Some EExit => (10, 0)
  end%N.
Definition b2n (b : bool) : N := if b then 1%N else 0%N.

(** layout: per thread [pc; q; remaining ops; returns], 99, runAsync pc,
    engine pc, index, waiting, exited, engineRunning, 99, per queue
    [len; head id + 1 or 0; listeners; IsRunning], 99, enabled bits (threads,
    runAsync, engine start, engine). *)
Definition observe (c : cfg) (s : state) : list N :=
  flat_map (fun a => [fst (apc_code (a_pc a)); snd (apc_code (a_pc a));
                      N.of_nat (length (a_prog a)); N.of_nat (a_ret a)]) (apps s)
  ++ [99; rapc_code (ra s); fst (epc_code (eng s)); snd (epc_code (eng s));
      N.of_nat (ewait s); N.of_nat (edone s); b2n (erunning s); 99]%N
  ++ flat_map (fun q => [N.of_nat (length (q_cmds q));
                         match q_cmds q with [] => 0 | cm :: _ => c_id cm + 1 end;
                         N.of_nat (length (q_lst q)); b2n (q_running q)]%N) (queues s)
  ++ [99%N]
  ++ map (fun t => b2n (enabled c s (TApp t))) (seq 0 (length (apps s)))
  ++ [b2n (enabled c s TRa); b2n (enabled c s TEngStart);
      b2n (enabled c s TEng || existsb (fun q => enabled c s (TEngGpu q)) (gpu s))].

Fixpoint list_eqb (a b : list N) : bool :=
  match a, b with
  | [], [] => true
  | x :: a', y :: b' => N.eqb x y && list_eqb a' b'
  | _, _ => false
  end.

Record case := mkCase {
  k_cfg : cfg; k_nq : nat; k_progs : list (list op);
  k_steps : list (list tstep * list N);   (* model steps of one granted real step, observation after it *)
  k_hung : bool                            (* the real run ended with every goroutine blocked *)
}.

(** index (from 1) of the first granted step whose model steps are not enabled
    or whose observation differs; 0 = the case agrees.  [length + 1] = the
    final hung/not hung verdict differs. *)
Fixpoint check_steps (c : cfg) (s : state) (k : nat) (l : list (list tstep * list N)) (hung : bool) : nat :=
  match l with
  | [] => if Bool.eqb (deadlocked c s) hung then 0 else k
  | (ts, o) :: r =>
    match run c s ts with
    | None => k
    | Some s' => if list_eqb (observe c s') o then check_steps c s' (S k) r hung else k
    end
  end.

Definition check_case (k : case) : nat :=
  check_steps (k_cfg k) (init (k_nq k) (k_progs k)) 1 (k_steps k) (k_hung k).

Fixpoint mism_from (i : nat) (l : list case) : list (N * N) :=
  match l with
  | [] => []
  | k :: r => match check_case k with
              | O => mism_from (S i) r
              | n => (N.of_nat i, N.of_nat n) :: mism_from (S i) r
              end
  end.
Definition mismatches (l : list case) : list (N * N) := mism_from 0 l.

Definition tstep_eqb (a b : tstep) : bool :=
  match a, b with
  | TApp x, TApp y => Nat.eqb x y
  | TRa, TRa | TEngStart, TEngStart | TEng, TEng => true
  | TEngGpu x, TEngGpu y => Nat.eqb x y
  | _, _ => false
  end.
Fixpoint sched_eqb (a b : list tstep) : bool :=
  match a, b with
  | [], [] => true
  | x :: a', y :: b' => tstep_eqb x y && sched_eqb a' b'
  | _, _ => false
  end.
(** the model schedule a recorded case stands for *)
Definition sched_of (k : case) : list tstep := concat (map fst (k_steps k)).

(* ---------------------------------------------------------------- *)
(** * The two schedules under which DrainCommandQueue never returns *)

Definition noop (i : N) : cmd := mkCmd i Noop.

(** (1) lost wake-up: Dequeue's Notify falls between the waiter's NumCommand()
    and its <-signal. One thread: Enqueue(q0, noop 1); Drain(q0). *)
Definition prog_lost : list (list op) := [[OEnq 0 (noop 1); ODrain 0]].
Definition sched_lost : list tstep :=
  [TApp 0; TApp 0;            (* Enqueue: append, notify (no listener) *)
   TApp 0;                    (* Drain: subscribe *)
   TRa;                       (* runAsync reaches its select *)
   TApp 0;                    (* enqueueSignal rendezvous *)
   TRa; TRa; TRa; TRa;        (* Pause, TickLater, Continue, test+spawn *)
   TEngStart; TEng; TEng; TEng; TEng; TEng; TEng;  (* acquire, noMoreEvent=false, lock, pop tick, sendToGPUs, completeEmptyCopies, processReturnReq *)
   TApp 0;                    (* waiter: NumCommand() = 1 *)
   TEng;                      (* Dequeue removes the command *)
   TEng;                      (* ... and notifies: nobody is receiving -> default *)
   TApp 0                     (* waiter: <-signal blocks *)
  ]
  ++ [TEng; TEng; TEng; TEng; TEng; TEng; TEng; TEng; TEng; TEng; TEng; TEng]  (* next tick finds nothing; Run returns; exit *)
  ++ [TRa].

(** (2) engine-exit race: Run has returned, engineRunning is still true while
    runAsync serves the next signal.  Enqueue; Drain; Enqueue; Drain. *)
Definition prog_exit : list (list op) :=
  [[OEnq 0 (noop 1); ODrain 0; OEnq 0 (noop 2); ODrain 0]].
Definition sched_exit : list tstep :=
  [TApp 0; TApp 0; TApp 0; TRa; TApp 0; TRa; TRa; TRa; TRa;
   TEngStart; TEng; TEng; TEng; TEng; TEng; TEng; TEng; TEng;    (* ... Dequeue + notify *)
   TApp 0; TApp 0; TApp 0;                                 (* check = 0, close, unsubscribe: first Drain returned *)
   TEng; TEng; TEng; TEng; TEng; TEng; TEng; TEng; TEng; TEng;   (* second tick: nothing; noMoreEvent -> Run returns *)
   TRa;                                                    (* runAsync back in select *)
   TApp 0; TApp 0; TApp 0; TApp 0;                         (* Enqueue; subscribe; signal *)
   TRa; TRa; TRa; TRa;                                     (* tick scheduled; engineRunning still true -> continue *)
   TEng; TEng;                                             (* engineRunning := false; exit *)
   TApp 0; TApp 0;                                         (* NumCommand() = 1; <-signal blocks *)
   TRa].

(* ---------------------------------------------------------------- *)
(** * A deterministic scheduler (first enabled label), used for examples *)

Fixpoint first_enabled (c : cfg) (s : state) (ls : list tstep) : option (tstep * state) :=
  match ls with
  | [] => None
  | l :: r => match step c s l with Some s' => Some (l, s') | None => first_enabled c s r end
  end.

Fixpoint auto_run (fuel : nat) (c : cfg) (s : state) : list tstep * state :=
  match fuel with
  | O => ([], s)
  | S f => match first_enabled c s (labels s) with
           | None => ([], s)
           | Some (l, s') => let (ls, s'') := auto_run f c s' in (l :: ls, s'')
           end
  end.

(* ---------------------------------------------------------------- *)
(** * The driver ticked by hand (copy mode of the harness)

    No goroutines: the harness enqueues every command first, then alternates
    [Driver.Tick()] calls with answers of its GPU.  One call of Tick is the run
    of the engine goroutine's steps from EPop (tick event) to EEnd; nobody
    listens, so the notifications are no-ops. *)

Fixpoint tick_run (fuel : nat) (c : cfg) (s : state) : state :=
  match fuel with
  | O => s
  | S k => match eng s with
           | Some (EEnd _) => s
           | _ => match eng_step c s with Some s' => tick_run k c s' | None => s end
           end
  end.

(** returns the state after the call and Tick's result (madeProgress) *)
Definition hand_tick (c : cfg) (s : state) : state * bool :=
  let fuel := 12 + 4 * (length (queues s) + length (empties s)) in
  let s1 := tick_run fuel c (s <| eng := Some EPop |> <| tick := true |> <| pause := true |>) in
  (s1 <| eng := None |> <| tick := false |> <| pause := false |>,
   match eng s1 with Some (EEnd mp) => mp | _ => false end).

(** the harness' GPU answers the request of queue q *)
Definition hand_answer (s : state) (q : nat) : option state :=
  if mem_nat q (gpu s) then Some (s <| gpu := remove_first q (gpu s) |> <| resp := resp s ++ [q] |>) else None.

Inductive hevent := HTick | HAnswer (q : nat).

Fixpoint enqueue_all (q : nat) (progs : list (list cmd)) (qs : list queue) : list queue :=
  match progs with
  | [] => qs
  | p :: r => enqueue_all (S q) r (upd q (fun qq => fold_left (fun x cm => q_append cm x) p qq) qs)
  end.

Definition hand_init (cs : list nat) (progs : list (list cmd)) : state :=
  let s := init_ctx cs [] in s <| queues := enqueue_all 0 progs (queues s) |>.

(** per queue [length; head id + 1 or 0; IsRunning], 99, requests sent and not
    answered, crashed *)
Definition hand_observe (s : state) : list N :=
  flat_map (fun q => [N.of_nat (length (q_cmds q));
                      match q_cmds q with [] => 0 | cm :: _ => c_id cm + 1 end;
                      b2n (q_running q)]%N) (queues s)
  ++ [99%N; N.of_nat (length (gpu s)); b2n (crashed s)].

Record hcase := mkHand {
  h_ctx : list nat; h_progs : list (list cmd);
  h_events : list (hevent * bool * list N)   (* event, Tick's result (false for answers), observation *)
}.

Fixpoint check_hand (c : cfg) (s : state) (k : nat) (l : list (hevent * bool * list N)) : nat :=
  match l with
  | [] => 0
  | (HTick, mp, o) :: r =>
    let (s', mp') := hand_tick c s in
    if Bool.eqb mp mp' && list_eqb (hand_observe s') o then check_hand c s' (S k) r else k
  | (HAnswer q, _, o) :: r =>
    match hand_answer s q with
    | Some s' => if list_eqb (hand_observe s') o then check_hand c s' (S k) r else k
    | None => k
    end
  end.

Fixpoint hmism_from (i : nat) (l : list hcase) : list (N * N) :=
  match l with
  | [] => []
  | h :: r => match check_hand cfg_fixed (hand_init (h_ctx h) (h_progs h)) 1 (h_events h) with
              | O => hmism_from (S i) r
              | n => (N.of_nat i, N.of_nat n) :: hmism_from (S i) r
              end
  end.
Definition hand_mismatches (l : list hcase) : list (N * N) := hmism_from 0 l.
