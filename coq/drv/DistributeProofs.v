(** Proofs about the page distributor and the work-group split (C18). *)
From Coq Require Import List NArith ZArith Bool Lia Arith.
From Coq Require Import ZifyN ZifyNat ZifyBool FinFun.
Import ListNotations.
From VDrv Require Import Distribute.

(** * Pages *)
Module PagesP.
Import Pages.
Open Scope N_scope.

Definition sumN (l : list N) : N := fold_right N.add 0 l.

Lemma sumN_app a b : sumN (a ++ b) = sumN a + sumN b.
Proof. unfold sumN; induction a; cbn in *; lia. Qed.

Lemma upto_0 : upto 0 = [].
Proof. reflexivity. Qed.

Lemma upto_succ k : upto (N.succ k) = upto k ++ [k].
Proof.
  unfold upto. rewrite N2Nat.inj_succ, seq_S, map_app; cbn. now rewrite N2Nat.id.
Qed.

Lemma upto_add a b : upto (a + b) = upto a ++ map (fun j => a + j) (upto b).
Proof.
  induction b using N.peano_ind.
  - rewrite N.add_0_r, upto_0; cbn. now rewrite app_nil_r.
  - rewrite N.add_succ_r, !upto_succ, IHb, map_app, app_assoc. reflexivity.
Qed.

Lemma in_upto x k : In x (upto k) <-> x < k.
Proof.
  unfold upto. rewrite in_map_iff. split.
  - intros (i & <- & Hi). apply in_seq in Hi. lia.
  - intros H. exists (N.to_nat x). split; [apply N2Nat.id|]. apply in_seq. lia.
Qed.

Lemma upto_length k : length (upto k) = N.to_nat k.
Proof. unfold upto. now rewrite map_length, seq_length. Qed.

Lemma nth_upto_map {A} (f : N -> A) k i d :
  (i < N.to_nat k)%nat -> nth i (map f (upto k)) d = f (N.of_nat i).
Proof.
  intros H. unfold upto. rewrite map_map.
  rewrite nth_indep with (d' := f (N.of_nat 0)) by (rewrite map_length, seq_length; lia).
  rewrite (map_nth (fun x => f (N.of_nat x)) (seq 0 (N.to_nat k)) 0%nat i).
  now rewrite seq_nth.
Qed.

(** consecutive blocks of [per] pages *)
Lemma blocks per k :
  flat_map (fun i => map (fun j => i * per + j) (upto per)) (upto k) = upto (k * per).
Proof.
  induction k using N.peano_ind.
  - reflexivity.
  - rewrite upto_succ, flat_map_app, IHk; cbn. rewrite app_nil_r.
    rewrite N.mul_succ_l. now rewrite upto_add.
Qed.

Lemma sum_const_if u a n :
  sumN (map (fun i => if i <? u then a else 0) (upto n)) = N.min u n * a.
Proof.
  induction n using N.peano_ind; [cbn; lia|].
  rewrite upto_succ, map_app, sumN_app, IHn; cbn.
  destruct (N.ltb_spec n u); [rewrite !N.min_r by lia|rewrite !N.min_l by lia]; lia.
Qed.

Lemma sum_single_if l b n :
  sumN (map (fun i => if i =? l then b else 0) (upto n)) = if l <? n then b else 0.
Proof.
  induction n using N.peano_ind; [rewrite upto_0; cbn; destruct (l <? 0) eqn:E; lia|].
  rewrite upto_succ, map_app, sumN_app, IHn; cbn.
  destruct (n =? l) eqn:E1, (l <? n) eqn:E2, (l <? N.succ n) eqn:E3; lia.
Qed.

Lemma sum_add (f g : N -> N) l :
  sumN (map (fun i => f i + g i) l) = sumN (map f l) + sumN (map g l).
Proof. unfold sumN; induction l; cbn in *; lia. Qed.

Lemma filter_first (A : N -> N) (S : N) (i : nat) k :
  sumN (map r_size (filter (fun r => Nat.eqb (r_idx r) i)
        (map (fun j => mkRemap (A j) S (N.to_nat j)) (upto k)))) =
  if N.of_nat i <? k then S else 0.
Proof.
  induction k using N.peano_ind; [rewrite upto_0; cbn; destruct (N.of_nat i <? 0) eqn:E; lia|].
  rewrite upto_succ, map_app, filter_app, map_app, sumN_app, IHk; cbn.
  destruct (Nat.eqb (N.to_nat k) i) eqn:E1, (N.of_nat i <? k) eqn:E2,
           (N.of_nat i <? N.succ k) eqn:E3; cbn; lia.
Qed.

Lemma filter_second (A : N -> N) (S : N) (L i : nat) k :
  sumN (map r_size (filter (fun r => Nat.eqb (r_idx r) i)
        (map (fun j => mkRemap (A j) S L) (upto k)))) =
  if Nat.eqb L i then k * S else 0.
Proof.
  induction k using N.peano_ind; [cbn; destruct (Nat.eqb L i); reflexivity|].
  rewrite upto_succ, map_app, filter_app, map_app, sumN_app, IHk; cbn.
  destruct (Nat.eqb L i); cbn; lia.
Qed.

Lemma pow2_pos k : 0 < 2 ^ k.
Proof. apply N.neq_0_lt_0. apply N.pow_nonzero. lia. Qed.

Lemma num_pages_ok ps bytes : 0 < ps -> 1 <= bytes < W64 -> num_pages ps bytes = (bytes - 1) / ps + 1.
Proof.
  intros Hps Hb. unfold num_pages.
  replace (bytes + W64 - 1) with ((bytes - 1) + 1 * W64) by lia.
  rewrite N.mod_add by (unfold W64; apply N.pow_nonzero; lia).
  rewrite N.mod_small by lia. reflexivity.
Qed.

(** the plan's numbers *)
Lemma plan_facts ps bytes n :
  0 < ps -> 1 <= bytes < W64 -> 1 <= n ->
  let p := mk_plan ps bytes n in
  let np := (bytes - 1) / ps + 1 in
  p_pages p = np /\ p_per p = np / n /\ p_rem p = np mod n /\
  p_use p * p_per p + p_rem p = np /\
  (n <= np -> p_use p = n /\ p_last p = n - 1 /\ 1 <= p_per p) /\
  (np < n -> p_use p = 0 /\ p_last p = 0 /\ p_per p = 0 /\ p_rem p = np).
Proof.
  intros Hps Hb Hn p np. subst p. unfold mk_plan. rewrite num_pages_ok by auto. fold np. cbn.
  assert (Hdm : np = n * (np / n) + np mod n) by (apply N.div_mod; lia).
  assert (Hm : np mod n < n) by (apply N.mod_lt; lia).
  destruct (N.le_gt_cases n np) as [Hle|Hlt].
  - assert (Hq : 1 <= np / n) by (apply N.div_le_lower_bound; lia).
    assert (E : (0 <? np / n) = true) by lia. rewrite E.
    assert (Hge : n <= np / (np / n)) by (apply N.div_le_lower_bound; lia).
    assert (E2 : (if n <? np / (np / n) then n else np / (np / n)) = n)
      by (destruct (n <? np / (np / n)) eqn:E2; lia).
    rewrite E2. assert (E3 : (n =? 0) = false) by lia. rewrite E3.
    repeat split; lia.
  - assert (Hq : np / n = 0) by (apply N.div_small; lia). rewrite Hq.
    assert (Hr : np mod n = np) by (apply N.mod_small; lia).
    change (0 <? 0) with false. cbv iota.
    assert (E2 : (n <? 0) = false) by lia. rewrite E2. change (0 =? 0) with true. cbv iota.
    repeat split; lia.
Qed.

Lemma distribute_panics_iff log2ps addr bytes ngpu :
  distribute log2ps addr bytes ngpu = None <-> (addr mod 2 ^ log2ps <> 0 \/ ngpu = 0%nat).
Proof.
  unfold distribute. destruct (addr mod 2 ^ log2ps =? 0) eqn:E; cbn.
  - destruct (Nat.eqb ngpu 0) eqn:E2.
    + apply Nat.eqb_eq in E2. split; auto.
    + apply Nat.eqb_neq in E2. split; [discriminate|]. intros [H|H]; [lia|contradiction].
  - split; auto. intros _. left. lia.
Qed.

Arguments N.mul : simpl never.
Arguments N.div : simpl never.
Arguments N.modulo : simpl never.
Arguments N.pow : simpl never.

Lemma distribute_covers_once_proof log2ps addr bytes ngpu :
  addr mod 2 ^ log2ps = 0 -> (0 < ngpu)%nat -> 1 <= bytes < W64 ->
  let ps := 2 ^ log2ps in
  let np := (bytes - 1) / ps + 1 in
  let n := N.of_nat ngpu in
  exists rs per, distribute log2ps addr bytes ngpu = Some (rs, per) /\
    flat_map (pages_of ps addr) rs = upto np /\
    Forall (fun r => addr <= r_addr r /\ (r_addr r - addr) mod ps = 0 /\ r_size r mod ps = 0 /\
                     0 < r_size r /\ (r_idx r < ngpu)%nat) rs /\
    length per = ngpu /\
    (forall i, (i < ngpu)%nat ->
       nth i per 0 = sumN (map r_size (filter (fun r => Nat.eqb (r_idx r) i) rs))) /\
    sumN per = np * ps /\
    (n <= np -> forall i, (i < ngpu)%nat ->
       nth i per 0 = (np / n + (if Nat.eqb i (ngpu - 1) then np mod n else 0)) * ps) /\
    (np < n -> forall i, (i < ngpu)%nat -> nth i per 0 = if Nat.eqb i 0 then np * ps else 0).
Proof.
  intros Hal Hng Hb ps np n.
  assert (Hps : 0 < ps) by apply pow2_pos.
  assert (Hn : 1 <= n) by lia.
  destruct (plan_facts ps bytes n Hps Hb Hn) as (Hpg & Hper & Hrem & Hsum & Hbig & Hsmall).
  fold np in Hpg, Hper, Hrem, Hsum, Hbig, Hsmall.
  cbv zeta in Hpg, Hper, Hrem, Hsum, Hbig, Hsmall.
  remember (mk_plan ps bytes n) as p eqn:Hp.
  unfold distribute. rewrite Hal; cbn [N.eqb negb]. fold ps.
  destruct (Nat.eqb ngpu 0) eqn:E0; [apply Nat.eqb_eq in E0; lia|]. fold n. rewrite <- Hp.
  eexists _, _. split; [reflexivity|].
  assert (Huse : p_use p <= n /\ p_last p < n /\ (p_use p = 0 \/ 1 <= p_per p)).
  { destruct (N.le_gt_cases n np) as [H|H]; [destruct (Hbig H) as (-> & -> & ?)|destruct (Hsmall H) as (-> & -> & ? & ?)]; lia. }
  destruct Huse as (Hu1 & Hl1 & Hu2).
  split; [|split; [|split; [|split; [|split; [|split]]]]].
  - (* tiling *)
    unfold remaps. rewrite flat_map_app.
    assert (E1 : flat_map (pages_of ps addr)
             (map (fun i => mkRemap (addr + i * p_per p * ps) (p_per p * ps) (N.to_nat i)) (upto (p_use p)))
             = upto (p_use p * p_per p)).
    { rewrite <- blocks. rewrite flat_map_concat_map, map_map, <- flat_map_concat_map.
      apply flat_map_ext. intros i. unfold pages_of; cbn.
      replace (addr + i * p_per p * ps - addr) with (i * p_per p * ps) by lia.
      rewrite !N.div_mul by lia. reflexivity. }
    assert (E2 : flat_map (pages_of ps addr)
             (map (fun i => mkRemap (addr + (p_per p * p_use p + i) * ps) ps (N.to_nat (p_last p))) (upto (p_rem p)))
             = map (fun j => p_use p * p_per p + j) (upto (p_rem p))).
    { rewrite flat_map_concat_map, map_map, <- flat_map_concat_map.
      induction (upto (p_rem p)) as [|i l IH]; [reflexivity|]. cbn. rewrite IH.
      unfold pages_of at 1; cbn.
      replace (addr + (p_per p * p_use p + i) * ps - addr) with ((p_per p * p_use p + i) * ps) by lia.
      rewrite N.div_mul by lia. rewrite N.div_same by lia.
      change (upto 1) with [0]. cbn. f_equal. lia. }
    rewrite E1, E2, <- upto_add. f_equal. lia.
  - (* each call *)
    unfold remaps. apply Forall_app; split; apply Forall_forall; intros r Hr;
      apply in_map_iff in Hr as (i & <- & Hi); apply in_upto in Hi; cbn.
    + split; [lia|]. split.
      { replace (addr + i * p_per p * ps - addr) with (i * p_per p * ps) by lia.
        apply N.mod_mul; lia. }
      split; [apply N.mod_mul; lia|]. split; [|lia].
      destruct Hu2; [lia|]. apply N.mul_pos_pos; lia.
    + split; [lia|]. split.
      { replace (addr + (p_per p * p_use p + i) * ps - addr) with ((p_per p * p_use p + i) * ps) by lia.
        apply N.mod_mul; lia. }
      split; [apply N.mod_same; lia|]. split; lia.
  - rewrite map_length, upto_length. lia.
  - intros i Hi. rewrite nth_upto_map by lia.
    unfold remaps. rewrite filter_app, map_app, sumN_app, filter_first, filter_second.
    unfold bytes_on. f_equal.
    destruct (Nat.eqb (N.to_nat (p_last p)) i) eqn:E1, (N.of_nat i =? p_last p) eqn:E2; lia.
  - change (bytes_on ps p) with
      (fun i => (if i <? p_use p then p_per p * ps else 0) + (if i =? p_last p then p_rem p * ps else 0)).
    rewrite (sum_add (fun i => if i <? p_use p then p_per p * ps else 0)
                     (fun i => if i =? p_last p then p_rem p * ps else 0)).
    rewrite sum_const_if, sum_single_if.
    destruct (p_last p <? n) eqn:E; [|lia]. rewrite N.min_l by lia. rewrite <- Hsum. lia.
  - intros Hle i Hi. destruct (Hbig Hle) as (Hu & Hl & Hpp).
    rewrite nth_upto_map by lia. unfold bytes_on. rewrite Hu, Hl, Hper, Hrem.
    destruct (N.of_nat i <? n) eqn:E1; [|lia].
    destruct (N.of_nat i =? n - 1) eqn:E2, (Nat.eqb i (ngpu - 1)) eqn:E3; lia.
  - intros Hlt i Hi. destruct (Hsmall Hlt) as (Hu & Hl & Hpp & Hr).
    rewrite nth_upto_map by lia. unfold bytes_on. rewrite Hu, Hl, Hr.
    destruct (N.of_nat i <? 0) eqn:E1; [lia|].
    destruct (N.of_nat i =? 0) eqn:E2, (Nat.eqb i 0) eqn:E3; lia.
Qed.

Example distribute_zero_bytes_quirk : num_pages 4096 0 = 4503599627370496.
Proof. vm_compute. reflexivity. Qed.

End PagesP.

(** * Work-group split *)
Module SplitP.
Import Split.
Open Scope Z_scope.

Arguments Z.mul : simpl never.
Arguments Z.pow : simpl never.
Arguments Z.div : simpl never.
Arguments Z.modulo : simpl never.
Arguments Z.quot : simpl never.

Lemma sumZ_nil : sumZ [] = 0.
Proof. reflexivity. Qed.
Lemma sumZ_cons a l : sumZ (a :: l) = a + sumZ l.
Proof. reflexivity. Qed.
Arguments sumZ : simpl never.

Lemma sumZ_nonneg l : Forall (fun c => 0 <= c) l -> 0 <= sumZ l.
Proof. induction 1; [rewrite sumZ_nil|rewrite sumZ_cons]; lia. Qed.

Lemma sumZ_firstn_S l i :
  (i < length l)%nat -> sumZ (firstn (S i) l) = sumZ (firstn i l) + nth i l 0.
Proof.
  revert i; induction l as [|a l IH]; intros i Hi; cbn in Hi; [lia|].
  destruct i; cbn [nth].
  - rewrite firstn_cons, !firstn_O, !sumZ_cons, !sumZ_nil. lia.
  - rewrite !firstn_cons, !sumZ_cons, IH by lia. lia.
Qed.

Lemma sumZ_firstn_mono l j k :
  Forall (fun c => 0 <= c) l -> (j <= k)%nat -> sumZ (firstn j l) <= sumZ (firstn k l).
Proof.
  intros Hl. revert j k; induction Hl as [|a l Ha Hl IH]; intros j k Hjk.
  - rewrite !firstn_nil. lia.
  - destruct j, k; rewrite ?firstn_cons, ?firstn_O; try lia.
    + rewrite sumZ_cons, sumZ_nil.
      assert (H : Forall (fun c => 0 <= c) (firstn k l)).
      { rewrite <- (firstn_skipn k l) in Hl. apply Forall_app in Hl. tauto. }
      apply sumZ_nonneg in H. lia.
    + rewrite !sumZ_cons. specialize (IH j k ltac:(lia)). lia.
Qed.

Lemma prefix_length acc w l : length (prefix acc w l) = S (length l).
Proof. revert acc; induction l; intros; cbn; auto. Qed.

Lemma prefix_nth acc w l i :
  (i <= length l)%nat -> nth i (prefix acc w l) 0 = acc + w * sumZ (firstn i l).
Proof.
  revert acc i; induction l as [|a l IH]; intros acc i Hi; cbn in Hi.
  - assert (i = 0)%nat by lia. subst. cbn [prefix nth]. rewrite firstn_O, sumZ_nil. lia.
  - destruct i; cbn [prefix nth]; [rewrite firstn_O, sumZ_nil; lia|].
    rewrite IH by lia. rewrite firstn_cons, sumZ_cons. lia.
Qed.

Lemma prefix_last acc w l : last (prefix acc w l) 0 = acc + w * sumZ l.
Proof.
  revert acc; induction l as [|a l IH]; intros acc; [cbn [prefix last]; rewrite sumZ_nil; lia|].
  cbn [prefix]. destruct (prefix (acc + a * w) w l) eqn:E.
  - pose proof (prefix_length (acc + a * w) w l) as H. rewrite E in H. discriminate.
  - rewrite <- E. change (last (acc :: prefix (acc + a * w) w l) 0) with
      (match prefix (acc + a * w) w l with [] => acc | _ :: _ => last (prefix (acc + a * w) w l) 0 end).
    rewrite E, <- E, IH. rewrite sumZ_cons. lia.
Qed.

Lemma num_wg_ok grid wg : 1 <= grid < W32 -> 1 <= wg -> num_wg grid wg = (grid - 1) / wg + 1 /\ 1 <= num_wg grid wg.
Proof.
  intros Hg Hw. unfold num_wg. rewrite Z.mod_small by lia.
  split; auto. assert (0 <= (grid - 1) / wg) by (apply Z.div_pos; lia). lia.
Qed.

Lemma flat_id_injective g x y z x' y' z' :
  0 <= x < nx g -> 0 <= y < ny g -> 0 <= z -> 0 <= x' < nx g -> 0 <= y' < ny g -> 0 <= z' ->
  flat_id g x y z = flat_id g x' y' z' -> x = x' /\ y = y' /\ z = z'.
Proof.
  unfold flat_id. intros Hx Hy Hz Hx' Hy' Hz' H.
  assert (H1 : nx g * (z * ny g + y) + x = nx g * (z' * ny g + y') + x') by lia.
  apply Z.div_mod_unique in H1; [|lia|lia]. destruct H1 as [H1 ->].
  assert (H2 : ny g * z + y = ny g * z' + y') by lia.
  apply Z.div_mod_unique in H2; [|lia|lia]. destruct H2 as [-> ->]. auto.
Qed.

(** some range of the table contains a given id *)
Lemma prefix_find w l : 1 <= w -> Forall (fun c => 0 <= c) l ->
  forall acc f, acc <= f < acc + w * sumZ l ->
  exists i, (i < length l)%nat /\
            nth i (prefix acc w l) 0 <= f < nth (S i) (prefix acc w l) 0.
Proof.
  intros Hw Hl; induction Hl as [|a l Ha Hl IH]; intros acc f Hf.
  - rewrite sumZ_nil in Hf. lia.
  - rewrite sumZ_cons in Hf.
    destruct (Z_lt_le_dec f (acc + a * w)) as [Hlt|Hge].
    + exists 0%nat. split; [cbn; lia|]. cbn [prefix nth].
      rewrite (prefix_nth (acc + a * w) w l 0) by lia. rewrite firstn_O, sumZ_nil. lia.
    + destruct (IH (acc + a * w) f) as (i & Hi & Hr); [lia|].
      exists (S i). split; [cbn; lia|]. exact Hr.
Qed.

Lemma gpu_split_partition_proof g cus :
  1 <= gx g < W32 -> 1 <= gy g < W32 -> 1 <= gz g < W32 ->
  1 <= wx g -> 1 <= wy g -> 1 <= wz g ->
  nx g * ny g * nz g < W32 ->
  Forall (fun c => 0 <= c) cus -> 1 <= sumZ cus ->
  exists d, wg_dist g cus = Some d /\ length d = S (length cus) /\ nth 0 d 0 = 0 /\
    (forall i, (i < length cus)%nat ->
        nth (S i) d 0 - nth i d 0 = nth i cus 0 * wg_per_cu g cus /\ nth i d 0 <= nth (S i) d 0) /\
    total_wg g <= last d 0 /\
    forall x y z, 0 <= x < nx g -> 0 <= y < ny g -> 0 <= z < nz g ->
      0 <= flat_id g x y z < total_wg g /\
      exists i, (i < length cus)%nat /\ wg_filter g d i x y z = true /\ launched d i = true /\
        forall j, (j < length cus)%nat -> wg_filter g d j x y z = true -> j = i.
Proof.
  intros Hgx Hgy Hgz Hwx Hwy Hwz Hfit Hcus Hsum.
  destruct (num_wg_ok _ _ Hgx Hwx) as [_ Hnx]. destruct (num_wg_ok _ _ Hgy Hwy) as [_ Hny].
  destruct (num_wg_ok _ _ Hgz Hwz) as [_ Hnz]. fold (nx g) in Hnx. fold (ny g) in Hny. fold (nz g) in Hnz.
  assert (Htot : total_wg g = nx g * ny g * nz g).
  { unfold total_wg. apply Z.mod_small. split; [|lia]. apply Z.mul_nonneg_nonneg; [apply Z.mul_nonneg_nonneg|]; lia. }
  assert (Htpos : 1 <= total_wg g).
  { rewrite Htot. assert (1 * 1 <= nx g * ny g) by (apply Z.mul_le_mono_nonneg; lia).
    assert (1 * 1 <= nx g * ny g * nz g) by (apply Z.mul_le_mono_nonneg; lia). lia. }
  set (S := sumZ cus) in *. set (t := total_wg g) in *.
  assert (Hw : wg_per_cu g cus = (t - 1) / S + 1).
  { unfold wg_per_cu. fold S. fold t. rewrite Z.quot_div_nonneg by lia. reflexivity. }
  set (w := wg_per_cu g cus) in *.
  assert (Hw1 : 1 <= w).
  { rewrite Hw. assert (0 <= (t - 1) / S) by (apply Z.div_pos; lia). lia. }
  assert (Hcover : t <= w * S).
  { rewrite Hw. pose proof (Z.div_mod (t - 1) S ltac:(lia)) as Hdm.
    pose proof (Z.mod_pos_bound (t - 1) S ltac:(lia)) as Hmb. lia. }
  set (d := prefix 0 w cus).
  assert (Hlast : last d 0 = w * S) by (unfold d; rewrite prefix_last; lia).
  exists d. split.
  { unfold wg_dist. fold S.
    assert (E1 : (S =? 0) = false) by lia. assert (E2 : (wx g =? 0) = false) by lia.
    assert (E3 : (wy g =? 0) = false) by lia. assert (E4 : (wz g =? 0) = false) by lia.
    rewrite E1, E2, E3, E4. cbn [orb]. fold w. fold d. fold t.
    assert (E5 : (last d 0 <? t) = false) by lia. rewrite E5. reflexivity. }
  split; [apply prefix_length|].
  split; [unfold d; rewrite prefix_nth by lia; rewrite firstn_O, sumZ_nil; lia|].
  assert (Hnth : forall i, (i <= length cus)%nat -> nth i d 0 = w * sumZ (firstn i cus)).
  { intros i Hi. unfold d. rewrite prefix_nth by lia. lia. }
  assert (Hmono : forall j k, (j <= k)%nat -> (k <= length cus)%nat -> nth j d 0 <= nth k d 0).
  { intros j k Hjk Hk. rewrite !Hnth by lia. apply Z.mul_le_mono_nonneg_l; [lia|].
    now apply sumZ_firstn_mono. }
  split.
  { intros i Hi. split; [|apply Hmono; lia].
    rewrite !Hnth by lia. rewrite sumZ_firstn_S by lia. lia. }
  split; [lia|].
  intros x y z Hx Hy Hz.
  assert (Hf : 0 <= flat_id g x y z < t).
  { unfold flat_id. fold t in Htot. rewrite Htot. split.
    - assert (0 <= z * nx g * ny g) by (apply Z.mul_nonneg_nonneg; [apply Z.mul_nonneg_nonneg|]; lia).
      assert (0 <= y * nx g) by (apply Z.mul_nonneg_nonneg; lia). lia.
    - assert (z * (nx g * ny g) <= (nz g - 1) * (nx g * ny g)).
      { apply Z.mul_le_mono_nonneg_r; [|lia]. apply Z.mul_nonneg_nonneg; lia. }
      assert (y * nx g <= (ny g - 1) * nx g) by (apply Z.mul_le_mono_nonneg_r; lia).
      lia. }
  split; [exact Hf|].
  set (f := flat_id g x y z) in *.
  destruct (prefix_find w cus Hw1 Hcus 0 f ltac:(lia)) as (i & Hi & Hr). fold d in Hr.
  exists i. split; [exact Hi|]. split.
  { unfold wg_filter. fold f. apply andb_true_intro. split; lia. }
  split.
  { unfold launched. apply negb_true_iff. lia. }
  intros j Hj Hfj. unfold wg_filter in Hfj. fold f in Hfj. apply andb_prop in Hfj as [Hj1 Hj2].
  destruct (Nat.lt_trichotomy j i) as [Hlt|[Heq|Hgt]]; auto; exfalso.
  - pose proof (Hmono (Datatypes.S j) i ltac:(lia) ltac:(lia)). lia.
  - pose proof (Hmono (Datatypes.S i) j ltac:(lia) ltac:(lia)). lia.
Qed.

Example split_uint32_overflow_quirk :
  let g := mkGeom 65536 65536 1 1 1 1 in
  total_wg g = 0 /\
  exists d, wg_dist g [64] = Some d /\ wg_filter g d 0 64 0 0 = false.
Proof. split; [reflexivity|]. eexists; split; [vm_compute; reflexivity|vm_compute; reflexivity]. Qed.

End SplitP.

(** * Per-GPU slices of the benchmarks *)
Module BenchP.
Import Pages PagesP Bench.
Open Scope N_scope.

Lemma cells_nil a : cells (a, 0) = [].
Proof. reflexivity. Qed.

(** a chain of boundaries f 0 <= f 1 <= ... <= f k cuts [f 0, f k) into the
    consecutive slices [f i, f (i+1)) *)
Lemma chain_tiles (f : N -> N) k :
  (forall i, i < k -> f i <= f (i + 1)) ->
  f 0 <= f k /\
  flat_map cells (map (fun i => (f i, f (i + 1) - f i)) (upto k)) =
  map (fun j => f 0 + j) (upto (f k - f 0)).
Proof.
  induction k using N.peano_ind; intros Hm.
  - split; [lia|]. rewrite N.sub_diag. reflexivity.
  - destruct IHk as [H0 IH]; [intros i Hi; apply Hm; lia|].
    assert (Hk : f k <= f (k + 1)) by (apply Hm; lia).
    rewrite <- N.add_1_r in *. split; [lia|].
    rewrite N.add_1_r, upto_succ, map_app, flat_map_app, IH. cbn [map flat_map].
    rewrite app_nil_r. unfold cells; cbn [fst snd].
    replace (f (N.succ k) - f 0) with ((f k - f 0) + (f (k + 1) - f k))
      by (rewrite <- N.add_1_r; lia).
    rewrite upto_add, map_app, map_map. f_equal. apply map_ext. intros j. lia.
Qed.

Lemma bal_mono n g i : 1 <= g -> bal_first n g i <= bal_first n g (i + 1).
Proof. intros Hg. unfold bal_first. apply N.div_le_mono; lia. Qed.

Lemma bal_ends n g : 1 <= g -> bal_first n g 0 = 0 /\ bal_first n g g = n.
Proof.
  intros Hg. unfold bal_first. split; [reflexivity|]. rewrite N.mul_comm. apply N.div_mul; lia.
Qed.

(** fir / relu: the slices of the g GPUs are consecutive, start at 0 and end
    at n: every item belongs to exactly one GPU, for every n >= 0 and g >= 1
    (also n < g, where some slices are empty). *)
Lemma balanced_partition_proof n g :
  1 <= g ->
  flat_map cells (slices (bal_slice n g) g) = upto n /\
  (forall i, i < g -> fst (bal_slice n g i) + snd (bal_slice n g i) = fst (bal_slice n g (i + 1))) /\
  fst (bal_slice n g 0) = 0 /\ fst (bal_slice n g g) = n.
Proof.
  intros Hg. destruct (bal_ends n g Hg) as [E0 Eg].
  destruct (chain_tiles (bal_first n g) g) as [_ H]; [intros; now apply bal_mono|].
  split; [|split; [|split]].
  - unfold slices, bal_slice. rewrite H, E0, Eg, N.sub_0_r.
    rewrite <- (map_id (upto n)) at 2. apply map_ext. intros; lia.
  - intros i Hi. unfold bal_slice; cbn [fst snd]. pose proof (bal_mono n g i Hg). lia.
  - exact E0.
  - exact Eg.
Qed.

(** matrixtranspose: boundaries min(n, per*i) with per = ceil(n/g) *)
Definition ceil_bound (n g i : N) : N := N.min n (ceil_per n g * i).

Lemma ceil_covers n g : 1 <= g -> n <= ceil_per n g * g.
Proof.
  intros Hg. unfold ceil_per.
  pose proof (N.div_mod (n + g - 1) g ltac:(lia)) as Hd.
  pose proof (N.mod_lt (n + g - 1) g ltac:(lia)) as Hm. nia.
Qed.

Lemma ceil_cells n g i :
  cells (ceil_slice n g i) = cells (ceil_bound n g i, ceil_bound n g (i + 1) - ceil_bound n g i).
Proof.
  unfold ceil_slice, ceil_bound. set (per := ceil_per n g).
  destruct (n <=? per * i) eqn:E.
  - assert (per * i <= per * (i + 1)) by nia.
    rewrite !N.min_l by lia. rewrite N.sub_diag. reflexivity.
  - assert (Hlt : per * i < n) by lia. rewrite (N.min_r n (per * i)) by lia.
    f_equal. f_equal. destruct (N.le_gt_cases n (per * (i + 1))) as [H|H].
    + rewrite (N.min_l n) by lia. rewrite N.min_r; nia.
    + rewrite (N.min_r n) by lia. rewrite N.min_l; nia.
Qed.

Lemma ceil_partition_proof n g :
  1 <= g -> flat_map cells (slices (ceil_slice n g) g) = upto n.
Proof.
  intros Hg. unfold slices.
  rewrite flat_map_concat_map, map_map, <- flat_map_concat_map.
  rewrite (flat_map_ext _ (fun i => cells (ceil_bound n g i, ceil_bound n g (i + 1) - ceil_bound n g i)))
    by (intros; apply ceil_cells).
  rewrite flat_map_concat_map, <- (map_map (fun i => (ceil_bound n g i, ceil_bound n g (i + 1) - ceil_bound n g i)) cells),
    <- flat_map_concat_map.
  destruct (chain_tiles (ceil_bound n g) g) as [_ H].
  { intros i _. unfold ceil_bound. apply N.min_le_compat_l. nia. }
  rewrite H. unfold ceil_bound. rewrite N.mul_0_r, N.min_0_r, N.sub_0_r.
  rewrite N.min_l by (now apply ceil_covers).
  rewrite <- (map_id (upto n)) at 2. apply map_ext. intros; lia.
Qed.

(** covering in order means exactly once *)
Lemma upto_nodup n : NoDup (upto n).
Proof.
  unfold upto. apply FinFun.Injective_map_NoDup; [intros a b H; lia|apply seq_NoDup].
Qed.

End BenchP.

Print Assumptions PagesP.distribute_covers_once_proof.
Print Assumptions SplitP.gpu_split_partition_proof.
