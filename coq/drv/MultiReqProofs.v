(* Proofs about the multi-request command model (MultiReq.v). *)
From Coq Require Import List NArith Bool Arith Lia.
Import ListNotations.
From VDrv Require Import MultiReq.

Definition all_pos (q0 : list cmd) := Forall (fun c => 1 <= c_n c) q0.

Definition Inv (q0 : list cmd) (s : st) : Prop :=
  queue s = skipn (ndone s) q0 /\ ndone s <= length q0
  /\ nstarted s = ndone s + (if running s then 1 else 0)
  /\ sent s = expected_sent q0 (nstarted s)
  /\ (running s = true <-> reqs s <> [])
  /\ (running s = true -> queue s <> []).

Lemma skipn_cons_inv : forall (A : Type) (d : A) n l c r,
  skipn n l = c :: r -> nth n l d = c /\ skipn (S n) l = r /\ n < length l.
Proof.
  induction n; intros l c r H.
  - simpl in H. subst l. simpl. repeat split. lia.
  - destruct l as [|x l].
    + simpl in H. discriminate.
    + simpl in H. apply IHn in H. destruct H as (H1 & H2 & H3).
      change (skipn (S (S n)) (x :: l)) with (skipn (S n) l).
      simpl nth. simpl length. repeat split; auto. lia.
Qed.

Lemma expected_sent_S : forall q0 k,
  expected_sent q0 (S k) =
  expected_sent q0 k ++ map (pair k) (seq 0 (c_n (nth k q0 (mkCmd 0 0)))).
Proof.
  intros. unfold expected_sent. rewrite seq_S. rewrite flat_map_app.
  simpl. rewrite app_nil_r. reflexivity.
Qed.

Lemma all_pos_nth : forall q0 n d, all_pos q0 -> n < length q0 -> 1 <= c_n (nth n q0 d).
Proof.
  intros q0 n d H Hn. unfold all_pos in H. rewrite Forall_forall in H.
  apply H. apply nth_In. exact Hn.
Qed.

Lemma map_seq_nonnil : forall (B : Type) (f : nat -> B) (l : list B) a n,
  1 <= n -> l ++ map f (seq a n) <> [].
Proof.
  intros B f l a n Hn H. apply app_eq_nil in H. destruct H as [_ H].
  destruct n; [lia|]. simpl in H. discriminate.
Qed.

Lemma inv_init : forall q0, Inv q0 (init q0).
Proof.
  intros q0. unfold Inv, init; simpl.
  repeat split; try lia; try discriminate.
  intros H; exfalso; apply H; reflexivity.
Qed.

Lemma inv_step : forall q0 s e s',
  all_pos q0 -> Inv q0 s -> step LastReply s e = Some s' -> Inv q0 s'.
Proof.
  intros q0 s e s' Hp (Hq & Hle & Hns & Hsent & Hrr & Hrq) Hstep.
  destruct s as [q rn rq nx nst nd sn].
  cbn [queue running reqs next nstarted ndone sent] in *.
  destruct e as [|k]; unfold step in Hstep;
    cbn [queue running reqs next nstarted ndone sent] in Hstep.
  - destruct q as [|c rest]; [discriminate|].
    destruct rn; [discriminate|].
    inversion Hstep; subst s'; clear Hstep.
    symmetry in Hq.
    destruct (skipn_cons_inv _ (mkCmd 0 0) _ _ _ _ Hq) as (Hn & Hsk & Hlt).
    assert (Hc : 1 <= c_n c). { rewrite <- Hn. apply all_pos_nth; auto. }
    assert (Hrun : match c_n c with 0 => false | S _ => true end = true).
    { destruct (c_n c); [lia|reflexivity]. }
    rewrite Hrun.
    unfold Inv; cbn [queue running reqs next nstarted ndone sent].
    repeat split; auto; try lia.
    + replace nst with nd by lia. rewrite expected_sent_S. rewrite Hn.
      rewrite Hsent. replace nst with nd by lia. reflexivity.
    + intros _. apply map_seq_nonnil. exact Hc.
    + intros _ H; discriminate.
  - destruct (k <? length rq) eqn:Ek; [|discriminate].
    apply Nat.ltb_lt in Ek.
    assert (Hne : rq <> []). { destruct rq; simpl in Ek; [lia|discriminate]. }
    assert (Hr : rn = true). { apply Hrr. exact Hne. }
    subst rn.
    destruct q as [|c rest]; [discriminate|].
    symmetry in Hq.
    destruct (skipn_cons_inv _ (mkCmd 0 0) _ _ _ _ Hq) as (Hn & Hsk & Hlt).
    destruct (remove_nth k rq) as [|x t] eqn:Er;
      inversion Hstep; subst s'; clear Hstep;
      unfold Inv; cbn [queue running reqs next nstarted ndone sent].
    + repeat split; auto; try lia; try discriminate.
    + repeat split; auto; try lia; try discriminate;
        try (intros _ H; discriminate).
Qed.

Lemma inv_run : forall q0 evs s, all_pos q0 -> Inv q0 s -> Inv q0 (run LastReply s evs).
Proof.
  intros q0 evs. induction evs as [|e t IH]; intros s Hp Hi.
  - exact Hi.
  - simpl. destruct (step LastReply s e) as [s'|] eqn:E.
    + apply IH; auto. eapply inv_step; eauto.
    + apply IH; auto.
Qed.

Theorem multi_fifo : forall q0 evs, all_pos q0 ->
  let s := run LastReply (init q0) evs in
  queue s = skipn (ndone s) q0 /\ ndone s <= length q0
  /\ nstarted s = ndone s + (if running s then 1 else 0)
  /\ sent s = expected_sent q0 (nstarted s)
  /\ (running s = true <-> reqs s <> [])
  /\ (running s = true -> queue s <> []).
Proof.
  intros q0 evs Hp s. subst s.
  apply (inv_run q0 evs (init q0) Hp (inv_init q0)).
Qed.

Lemma step_props : forall q0 s e s', Inv q0 s -> step LastReply s e = Some s' ->
  (reqs s <> [] -> sent s' = sent s /\ nstarted s' = nstarted s /\ exists k, e = EReply k)
  /\ (e = EStart -> reqs s = [] /\ queue s' = queue s /\ ndone s' = ndone s)
  /\ (forall k, e = EReply k ->
       (reqs s' = [] -> queue s' = tl (queue s) /\ ndone s' = S (ndone s) /\ running s' = false)
       /\ (reqs s' <> [] -> queue s' = queue s /\ ndone s' = ndone s /\ running s' = true)).
Proof.
  intros q0 s e s' (Hq & Hle & Hns & Hsent & Hrr & Hrq) Hstep.
  destruct s as [q rn rq nx nst nd sn].
  cbn [queue running reqs next nstarted ndone sent] in *.
  destruct e as [|k]; unfold step in Hstep;
    cbn [queue running reqs next nstarted ndone sent] in Hstep.
  - destruct q as [|c rest]; [discriminate|].
    destruct rn; [discriminate|].
    assert (Hrq0 : rq = []).
    { destruct rq as [|x t]; [reflexivity|]. exfalso.
      assert (Hf : false = true) by (apply Hrr; discriminate). discriminate. }
    inversion Hstep; subst s'; clear Hstep.
    cbn [queue running reqs next nstarted ndone sent].
    split; [|split].
    + intros H. exfalso. apply H. exact Hrq0.
    + intros _. repeat split; auto.
    + intros k H. discriminate.
  - destruct (k <? length rq) eqn:Ek; [|discriminate].
    apply Nat.ltb_lt in Ek.
    assert (Hne : rq <> []). { destruct rq; simpl in Ek; [lia|discriminate]. }
    assert (Hr : rn = true). { apply Hrr. exact Hne. }
    subst rn.
    destruct q as [|c rest]; [discriminate|].
    destruct (remove_nth k rq) as [|x t] eqn:Er;
      inversion Hstep; subst s'; clear Hstep;
      cbn [queue running reqs next nstarted ndone sent].
    + split; [|split].
      * intros _. repeat split; auto. exists k; reflexivity.
      * intros H; discriminate.
      * intros k' _. split.
        -- intros _. simpl. repeat split; auto.
        -- intros H. exfalso. apply H. reflexivity.
    + split; [|split].
      * intros _. repeat split; auto. exists k; reflexivity.
      * intros H; discriminate.
      * intros k' _. split.
        -- intros H; discriminate.
        -- intros _. repeat split; auto.
Qed.

Theorem multi_step : forall q0 evs e s', all_pos q0 ->
  let s := run LastReply (init q0) evs in
  step LastReply s e = Some s' ->
  (reqs s <> [] -> sent s' = sent s /\ nstarted s' = nstarted s /\ exists k, e = EReply k)
  /\ (e = EStart -> reqs s = [] /\ queue s' = queue s /\ ndone s' = ndone s)
  /\ (forall k, e = EReply k ->
       (reqs s' = [] -> queue s' = tl (queue s) /\ ndone s' = S (ndone s) /\ running s' = false)
       /\ (reqs s' <> [] -> queue s' = queue s /\ ndone s' = ndone s /\ running s' = true)).
Proof.
  intros q0 evs e s' Hp s Hstep. subst s.
  apply (step_props q0 _ e s' (inv_run q0 evs (init q0) Hp (inv_init q0)) Hstep).
Qed.

Theorem multi_first_reply_refuted : exists q0 evs, all_pos q0 /\
  let s := run FirstReply (init q0) evs in
  sent s <> expected_sent q0 (length q0) /\ nstarted s > ndone s + 1
  /\ (forall x, ~ (In x (sent s) /\ fst x >= 1))
  /\ ~ NoDup (sent s) /\ nstarted s = 2 /\ ndone s = 0.
Proof.
  exists witness_q0, witness_evs. split.
  - unfold all_pos, witness_q0. repeat constructor.
  - cbv zeta.
    change (run FirstReply (init witness_q0) witness_evs)
      with (mkSt witness_q0 true [(1,1);(2,0);(3,1)] 4 2 0 [(0,0);(0,1);(0,0);(0,1)]).
    cbn [queue running reqs next nstarted ndone sent].
    repeat split.
    + vm_compute. intros H; discriminate.
    + lia.
    + intros x [Hin Hge]. simpl in Hin.
      destruct Hin as [H|[H|[H|[H|H]]]]; try (subst x; simpl in Hge; lia).
      exact H.
    + intros H. inversion H as [|a l Hnin Hnd]; subst.
      apply Hnin. simpl. right; left; reflexivity.
Qed.

Example multi_example :
  let s := run LastReply (init [mkCmd 1 3; mkCmd 2 1; mkCmd 3 2])
             [EStart; EReply 1; EStart; EReply 1; EReply 0; EStart; EReply 0;
              EStart; EReply 1; EReply 0] in
  queue s = [] /\ ndone s = 3 /\ sent s = [(0,0);(0,1);(0,2);(1,0);(2,0);(2,1)].
Proof. vm_compute. repeat split. Qed.
