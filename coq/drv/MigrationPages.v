(** A migration request with several pages: the loop of
    Driver.processShootdownCompleteRsp over (requesting GPU, virtual page),
    one preparePageForMigration and one PageMigrationReqToCP per page, and the
    copies the command processors / page migration controllers perform, one
    after the other in the order the requests were queued.
    Theorem [every_page_copied_and_remapped]: every page of the request is
    remapped to a fresh physical page of its requesting GPU, that page ends up
    with the contents the page had before, pages outside the request keep their
    mapping. *)
From VDrv Require Import Migration MigrationProofs.
Open Scope N_scope.

(** one PageMigrationReqToCP: (index of the GPU it is sent to, ToReadFromPhysicalAddress, ToWriteToPhysicalAddress) *)
Record copy := mkCopy { cp_gpu : N; cp_read : N; cp_write : N }.

(** the two nested loops, flattened: [l] lists (GPU index, virtual address) *)
Fixpoint prepare_pages (d : drv) (pid : N) (l : list (N * N)) : option (drv * list copy) :=
  match l with
  | [] => Some (d, [])
  | (g, va) :: r =>
    match prepare_page_for_migration d pid va g with
    | None => None
    | Some (d1, np, old) =>
      match prepare_pages d1 pid r with
      | None => None
      | Some (d2, cs) => Some (d2, mkCopy g old (pg_paddr np) :: cs)
      end
    end
  end.

(** physical memory at page granularity: contents of the page at a physical address *)
Definition pmem := N -> N.
Definition do_copy (m : pmem) (c : copy) : pmem := fun a => if a =? cp_write c then m (cp_read c) else m a.
Definition exec_copies (m : pmem) (cs : list copy) : pmem := fold_left do_copy cs m.

Lemma exec_other cs : forall m a, ~ In a (map cp_write cs) -> exec_copies m cs a = m a.
Proof.
  unfold exec_copies. induction cs as [|c cs IH]; intros m a H; [reflexivity|]. cbn [fold_left]. rewrite IH.
  - unfold do_copy. destruct (a =? cp_write c) eqn:E; auto. apply N.eqb_eq in E. exfalso. apply H. left. auto.
  - intros Hi. apply H. right. exact Hi.
Qed.

Lemma exec_copies_spec cs : forall m,
  NoDup (map cp_write cs) ->
  (forall c c', In c cs -> In c' cs -> cp_read c <> cp_write c') ->
  forall c, In c cs -> exec_copies m cs (cp_write c) = m (cp_read c).
Proof.
  induction cs as [|c0 cs IH]; intros m Hd Hrw c Hin; [contradiction|].
  cbn [map] in Hd. inversion Hd as [|x l Hn Hd']; subst.
  change (exec_copies m (c0 :: cs)) with (exec_copies (do_copy m c0) cs).
  destruct Hin as [<-|Hin].
  - rewrite exec_other; auto. unfold do_copy. rewrite N.eqb_refl. reflexivity.
  - rewrite IH; auto.
    + unfold do_copy. destruct (cp_read c =? cp_write c0) eqn:E; auto.
      apply N.eqb_eq in E. exfalso. apply (Hrw c c0); cbn; auto.
    + intros a b Ha Hb. apply Hrw; cbn; auto.
Qed.

(** ** the allocator side: free physical pages are not mapped, and not listed twice *)
Record hygiene (d : drv) : Prop := {
  hy_nodup : forall dev, NoDup (d_alloc d dev);
  hy_disj : forall dev1 dev2 a, In a (d_alloc d dev1) -> In a (d_alloc d dev2) -> dev1 = dev2;
  hy_unmapped : forall dev a p, In a (d_alloc d dev) -> In p (d_pt d) -> pg_paddr p <> a
}.

Lemma pt_update_in pt : forall pg pt', pt_update pt pg = Some pt' ->
  forall p, In p pt' -> p = pg \/ In p pt.
Proof.
  induction pt as [|x pt IH]; intros pg pt' E p Hp; [discriminate|]. cbn in E.
  destruct (same_key (pg_pid pg) (pg_vaddr pg) x).
  - inversion E; subst. destruct Hp as [<-|Hp]; [left; auto|right; right; auto].
  - destruct (pt_update pt pg) as [r'|] eqn:Eu; [|discriminate]. inversion E; subst.
    destruct Hp as [<-|Hp]; [right; left; auto|]. destruct (IH _ _ Eu _ Hp); [left; auto|right; right; auto].
Qed.

Lemma find_in {T} f (l : list T) x : find f l = Some x -> In x l.
Proof. intros H. apply find_some in H. tauto. Qed.

(** one page: what the table and the free lists look like afterwards *)
Lemma prepare_one d pid va g d1 np old :
  prepare_page_for_migration d pid va g = Some (d1, np, old) ->
  pt_align d va = va ->
  hygiene d ->
  (exists pg, pt_find_in d (d_pt d) pid va = Some pg /\ old = pg_paddr pg) /\
  (exists rest, d_alloc d (g + 1) = pg_paddr np :: rest /\ d_alloc d1 (g + 1) = rest) /\
  (forall dev, dev <> g + 1 -> d_alloc d1 dev = d_alloc d dev) /\
  pt_find_in d1 (d_pt d1) pid va = Some np /\
  (forall pid' va', (pid', pt_align d va') <> (pid, va) ->
     pt_find_in d1 (d_pt d1) pid' va' = pt_find_in d (d_pt d) pid' va') /\
  pg_device np = g + 1 /\ pg_migrating np = true /\ pg_valid np = true /\
  d_log2 d1 = d_log2 d /\
  hygiene d1.
Proof.
  intros H Hal Hy.
  assert (Hsome : exists pg, pt_find_in d (d_pt d) pid va = Some pg).
  { unfold prepare_page_for_migration in H. destruct (pt_find_in d (d_pt d) pid va); [eauto|discriminate]. }
  destruct Hsome as [pg Hf].
  assert (Hc : dev_can_alloc d (g + 1) = true).
  { unfold prepare_page_for_migration, allocate_page_with_given_vaddr in H. rewrite Hf in H.
    unfold dev_can_alloc. destruct (d_alloc d (g + 1)); [discriminate|reflexivity]. }
  pose proof (migration_only_target d pid va g pg Hal Hf Hc) as M. rewrite H in M.
  destruct M as (M1 & M2 & M3 & M4 & M5 & M6 & M7 & M8 & M9 & M10 & M11).
  (* the entries of the new table *)
  assert (Hin : forall p, In p (d_pt d1) -> pg_paddr p = pg_paddr np \/ In p (d_pt d)).
  { revert H. unfold prepare_page_for_migration, allocate_page_with_given_vaddr. rewrite Hf.
    destruct (d_alloc d (g + 1)) as [|pa rest]; [discriminate|].
    destruct (pt_update (d_pt d) _) as [pt1|] eqn:U1; [|discriminate].
    cbn [d_pt d_log2 d_alloc d_mirror pg_pid pg_paddr pg_vaddr pg_size pg_valid pg_unified pg_pinned].
    destruct (pt_update pt1 _) as [pt2|] eqn:U2; [|discriminate].
    intros H. inversion H; subst d1 np old. cbn [d_pt pg_paddr]. intros p Hp.
    destruct (pt_update_in _ _ _ U2 _ Hp) as [->|Hp1]; [left; reflexivity|].
    destruct (pt_update_in _ _ _ U1 _ Hp1) as [->|Hp0]; [left; reflexivity|right; exact Hp0]. }
  split; [exists pg; auto|]. split; [eexists; split; [exact M8|]|].
  { reflexivity. }
  repeat split; auto.
  - (* NoDup *)
    intros dev. destruct (N.eq_dec dev (g + 1)) as [->|Hn].
    + pose proof (hy_nodup d Hy (g + 1)) as Hd. rewrite M8 in Hd. inversion Hd; auto.
    + rewrite M10; auto. apply (hy_nodup d Hy).
  - (* disjoint *)
    intros dev1 dev2 a H1 H2. apply (hy_disj d Hy dev1 dev2 a).
    + destruct (N.eq_dec dev1 (g + 1)) as [->|Hn]; [rewrite M8; right; auto|rewrite <- M10; auto].
    + destruct (N.eq_dec dev2 (g + 1)) as [->|Hn]; [rewrite M8; right; auto|rewrite <- M10; auto].
  - (* unmapped *)
    intros dev a p Ha Hp. destruct (Hin p Hp) as [Ep|Hp0].
    + rewrite Ep. intros <-.
      assert (Hpa : In (pg_paddr np) (d_alloc d (g + 1))) by (rewrite M8; left; auto).
      destruct (N.eq_dec dev (g + 1)) as [->|Hn].
      * pose proof (hy_nodup d Hy (g + 1)) as Hd. rewrite M8 in Hd. inversion Hd; auto.
      * rewrite M10 in Ha; auto. apply Hn. apply (hy_disj d Hy dev (g + 1) (pg_paddr np)); auto.
    + apply (hy_unmapped d Hy dev a p); auto.
      destruct (N.eq_dec dev (g + 1)) as [->|Hn]; [rewrite M8; right; auto|rewrite <- M10; auto].
Qed.

Lemma Forall2_in_r {A B} (R : A -> B -> Prop) l1 l2 :
  Forall2 R l1 l2 -> forall b, In b l2 -> exists a, In a l1 /\ R a b.
Proof.
  induction 1 as [|a b l1 l2 Hab HF IH]; intros b' Hb; [contradiction|].
  destruct Hb as [<-|Hb]; [exists a; split; [left; auto|auto]|].
  destruct (IH b' Hb) as (a' & Ha & Hr). exists a'. split; [right; auto|auto].
Qed.
Lemma Forall2_impl_in {A B} (R R' : A -> B -> Prop) l1 l2 :
  (forall a b, In a l1 -> In b l2 -> R a b -> R' a b) -> Forall2 R l1 l2 -> Forall2 R' l1 l2.
Proof.
  intros H HF. induction HF as [|a b l1 l2 Hab HF IH]; constructor.
  - apply H; cbn; auto.
  - apply IH. intros a' b' Ha Hb. apply H; cbn; auto.
Qed.

Lemma pt_align_log2 d1 d va : d_log2 d1 = d_log2 d -> pt_align d1 va = pt_align d va.
Proof. unfold pt_align. intros ->. reflexivity. Qed.

(** what is true of one page of the request and its PageMigrationReqToCP *)
Definition Rpage (d d' : drv) (pid : N) (gv : N * N) (c : copy) : Prop :=
  cp_gpu c = fst gv /\
  (exists pg, pt_find_in d (d_pt d) pid (snd gv) = Some pg /\ cp_read c = pg_paddr pg) /\
  In (cp_write c) (d_alloc d (fst gv + 1)) /\
  (exists np, pt_find_in d' (d_pt d') pid (snd gv) = Some np /\ pg_paddr np = cp_write c /\
              pg_device np = fst gv + 1 /\ pg_migrating np = true /\ pg_valid np = true).

Lemma prepare_pages_spec : forall l d pid d' cs,
  hygiene d -> NoDup (map snd l) -> (forall gv, In gv l -> pt_align d (snd gv) = snd gv) ->
  prepare_pages d pid l = Some (d', cs) ->
  hygiene d' /\ d_log2 d' = d_log2 d /\
  Forall2 (Rpage d d' pid) l cs /\
  NoDup (map cp_write cs) /\
  (forall dev a, In a (d_alloc d' dev) -> In a (d_alloc d dev) /\ ~ In a (map cp_write cs)) /\
  (forall pid' va', (forall gv, In gv l -> (pid', pt_align d va') <> (pid, snd gv)) ->
     pt_find_in d' (d_pt d') pid' va' = pt_find_in d (d_pt d) pid' va').
Proof.
  induction l as [|[g va] r IH]; intros d pid d' cs Hy Hnd Hal H.
  - cbn in H. inversion H; subst. repeat split; auto; try apply Hy; constructor.
  - cbn [prepare_pages] in H.
    destruct (prepare_page_for_migration d pid va g) as [[[d1 np] old]|] eqn:E1; [|discriminate].
    destruct (prepare_pages d1 pid r) as [[d2 cs']|] eqn:E2; [|discriminate].
    inversion H; subst d' cs. clear H.
    cbn [map] in Hnd. inversion Hnd as [|x xs Hnotin Hnd']; subst.
    assert (Hva : pt_align d va = va) by (apply (Hal (g, va)); left; auto).
    destruct (prepare_one d pid va g d1 np old E1 Hva Hy)
      as ((pg & Hf & Hold) & (rest & Ha & Ha1) & Hoth & Hf1 & Hun & Hdev & Hmig & Hval & Hlog & Hy1).
    assert (Hal1 : forall gv, In gv r -> pt_align d1 (snd gv) = snd gv).
    { intros gv Hi. rewrite (pt_align_log2 d1 d _ Hlog). apply Hal. right. exact Hi. }
    destruct (IH d1 pid d2 cs' Hy1 Hnd' Hal1 E2) as (Hy2 & Hlog2 & HF & Hnw & Hsub & Hun2).
    (* free pages of d1 are free pages of d, and not the page just taken *)
    assert (Hsub1 : forall dev a, In a (d_alloc d1 dev) -> In a (d_alloc d dev) /\ a <> pg_paddr np).
    { intros dev a Hi. destruct (N.eq_dec dev (g + 1)) as [->|Hn].
      - rewrite Ha1 in Hi. rewrite Ha. split; [right; auto|].
        pose proof (hy_nodup d Hy (g + 1)) as Hd. rewrite Ha in Hd. inversion Hd; subst. intros ->. auto.
      - rewrite Hoth in Hi; auto. split; auto. intros ->. apply Hn.
        apply (hy_disj d Hy dev (g + 1) (pg_paddr np)); auto. rewrite Ha. left. auto. }
    assert (Hw1 : forall c, In c cs' -> cp_write c <> pg_paddr np).
    { intros c Hc. destruct (Forall2_in_r _ _ _ HF c Hc) as (gv & _ & (_ & _ & Hw & _)).
      apply (Hsub1 _ _ Hw). }
    split; [exact Hy2|]. split; [congruence|]. split; [|split; [|split]].
    + constructor.
      * unfold Rpage. cbn [fst snd cp_gpu cp_read cp_write]. split; [reflexivity|]. split; [exists pg; auto|].
        split; [rewrite Ha; left; auto|].
        exists np. split; [|auto].
        rewrite Hun2; auto. intros gv Hi E. inversion E as [Eva].
        apply Hnotin. rewrite (pt_align_log2 d1 d _ Hlog), Hva in Eva. rewrite Eva. apply in_map. exact Hi.
      * eapply Forall2_impl_in; [|exact HF]. intros gv c Hgv Hc (R1 & (pg' & R2 & R2') & R3 & R4).
        split; [exact R1|]. split; [|split; [apply (Hsub1 _ _ R3)|exact R4]].
        exists pg'. split; auto. rewrite <- R2. symmetry. apply Hun.
        intros E. inversion E as [Eva]. apply Hnotin.
        rewrite (Hal gv) in Eva by (right; exact Hgv). rewrite <- Eva. apply in_map. exact Hgv.
    + cbn [map cp_write]. constructor; auto. intros Hi. apply in_map_iff in Hi. destruct Hi as (c & Ec & Hc).
      apply (Hw1 c Hc). exact Ec.
    + intros dev a Hi. destruct (Hsub dev a Hi) as [S1 S2]. destruct (Hsub1 dev a S1) as [S3 S4].
      split; auto. cbn [map cp_write]. intros [E|E]; [congruence|auto].
    + intros pid' va' Hn. rewrite Hun2.
      * apply Hun. apply (Hn (g, va)). left. auto.
      * intros gv Hi. rewrite (pt_align_log2 d1 d _ Hlog). apply Hn. right. exact Hi.
Qed.

(** ** the statement *)
Theorem every_page_copied_and_remapped : forall l d pid d' cs,
  hygiene d -> NoDup (map snd l) -> (forall gv, In gv l -> pt_align d (snd gv) = snd gv) ->
  prepare_pages d pid l = Some (d', cs) ->
  (* one request per page, to the requesting GPU, from the old to the new physical page *)
  Forall2 (Rpage d d' pid) l cs /\
  (* once the copies are done, in the order they were queued, every new page holds what the old one held *)
  (forall m c, In c cs -> exec_copies m cs (cp_write c) = m (cp_read c)) /\
  (* ... and no other physical page has changed *)
  (forall m a, ~ In a (map cp_write cs) -> exec_copies m cs a = m a) /\
  (* pages that are not part of the request keep their page-table entry *)
  (forall pid' va', (forall gv, In gv l -> (pid', pt_align d va') <> (pid, snd gv)) ->
     pt_find_in d' (d_pt d') pid' va' = pt_find_in d (d_pt d) pid' va').
Proof.
  intros l d pid d' cs Hy Hnd Hal H.
  destruct (prepare_pages_spec l d pid d' cs Hy Hnd Hal H) as (_ & _ & HF & Hnw & _ & Hun).
  split; [exact HF|]. split; [|split; [intros; apply exec_other; auto|exact Hun]].
  intros m c Hc. apply exec_copies_spec; auto.
  intros c1 c2 H1 H2.
  destruct (Forall2_in_r _ _ _ HF c1 H1) as (gv1 & _ & (_ & (pg & Hf & ->) & _ & _)).
  destruct (Forall2_in_r _ _ _ HF c2 H2) as (gv2 & _ & (_ & _ & Hw & _)).
  apply (hy_unmapped d Hy _ _ _ Hw). unfold pt_find_in, pt_lookup in Hf. apply (find_in _ _ _ Hf).
Qed.

(** ** a concrete request: two pages for GPU index 1 and one for GPU index 2, in one request *)
Definition ex_page (a : N) : page := mkPage 7 a a 4096 true 1 true false false.
Definition ex_d : drv :=
  mkDrv 12 [ex_page 4096; ex_page 8192; ex_page 12288; ex_page 16384]
        (alloc_of [(2, [1048576; 1052672; 1056768]); (3, [2097152; 2101248])]) [].

Lemma ex_alloc dev : d_alloc ex_d dev =
  if 2 =? dev then [1048576; 1052672; 1056768] else if 3 =? dev then [2097152; 2101248] else [].
Proof.
  unfold ex_d, alloc_of, d_alloc. cbn [find fst snd].
  destruct (2 =? dev); [reflexivity|]. destruct (3 =? dev); reflexivity.
Qed.

Lemma ex_hygiene : hygiene ex_d.
Proof.
  constructor.
  - intros dev. rewrite ex_alloc. destruct (2 =? dev); [|destruct (3 =? dev)];
      repeat constructor; cbn; intuition discriminate.
  - intros dev1 dev2 a. rewrite !ex_alloc.
    destruct (2 =? dev1) eqn:E1; [|destruct (3 =? dev1) eqn:E1'];
    (destruct (2 =? dev2) eqn:E2; [|destruct (3 =? dev2) eqn:E2']); cbn;
    rewrite ?N.eqb_eq in *; intros H1 H2; try contradiction; try congruence;
    repeat (destruct H1 as [H1|H1]; try contradiction); subst a;
    repeat (destruct H2 as [H2|H2]; try contradiction; try discriminate).
  - intros dev a p. rewrite ex_alloc. unfold ex_d, d_pt.
    destruct (2 =? dev); [|destruct (3 =? dev)]; cbn; intros H1 H2; try contradiction;
    repeat (destruct H1 as [H1|H1]; try contradiction); subst a;
    repeat (destruct H2 as [H2|H2]; try contradiction); subst p; cbn; discriminate.
Qed.

Definition ex_request : list (N * N) := [(1, 4096); (1, 8192); (2, 12288)].

Lemma ex_prepare :
  exists d', prepare_pages ex_d 7 ex_request =
    Some (d', [mkCopy 1 4096 1048576; mkCopy 1 8192 1052672; mkCopy 2 12288 2097152]) /\
  option_map pg_paddr (pt_find_in d' (d_pt d') 7 4096) = Some 1048576 /\
  option_map pg_paddr (pt_find_in d' (d_pt d') 7 8192) = Some 1052672 /\
  option_map pg_paddr (pt_find_in d' (d_pt d') 7 12288) = Some 2097152 /\
  option_map pg_paddr (pt_find_in d' (d_pt d') 7 16384) = Some 16384.
Proof. eexists. split; [vm_compute; reflexivity|]. vm_compute. repeat split. Qed.
