(** C12 — shutdown.  Driver.Terminate (repaired) = rendezvous on driverStopped
    with runAsync in its select (runAsync returns: no TRa step any more), then
    wait on engineIdle until engineRunning is false.  In the LTS: Terminate can
    return exactly in states with [ra s = RSelect] and [erunning s = false].
    From such a state, with runAsync gone and no application thread calling
    any more, the only transition an engine goroutine can still make is the
    release of engineMutex; nothing of the driver's state changes. *)
From Coq Require Import List NArith Bool Arith Lia.
Import ListNotations.
From RecordUpdate Require Import RecordSet.
Import RecordSetNotations.
From VDrv Require Import QueueE HandoffE QueueESafety QueueEInv QueueELive.

Definition engine_label (l : tstep) : bool :=
  match l with TEngStart | TEng | TEngGpu _ => true | _ => false end.

(** what Terminate's caller may tear down afterwards *)
Definition driver_view (s : state) :=
  (apps s, queues s, ra s, erunning s, rerun s, tick s, tosend s, gpu s, resp s, pause s, crashed s).

Lemma idle_engine s : inv s -> erunning s = false ->
  ewait s = 0 /\ (eng s = None \/ eng s = Some EExit).
Proof.
  intros I R. pose proof (i_run s I) as H. rewrite R in H.
  destruct (eng s) as [p|]; simpl in H; [|split; [lia|auto]].
  destruct p; simpl in H; try lia. split; [lia|auto].
Qed.

Lemma step_after_terminate s l s' :
  inv s -> erunning s = false -> engine_label l = true -> step cfg_fixed s l = Some s' ->
  driver_view s' = driver_view s /\ erunning s' = false /\ inv s'.
Proof.
  intros I R L H. pose proof (step_preserves_inv _ _ _ I H) as I'.
  destruct (idle_engine s I R) as (W & E).
  destruct l; simpl in L; try discriminate; unfold step in H; rewrite (i_crash s I) in H.
  - (* TEngStart *) rewrite W in H. destruct (eng s); discriminate.
  - (* TEng *) unfold eng_step in H. destruct E as [E|E]; rewrite E in H; [discriminate|].
    injection H as <-. unfold driver_view. simpl. rewrite R. auto.
  - (* TEngGpu *) destruct E as [E|E]; rewrite E in H; discriminate.
Qed.

Theorem run_after_terminate sched : forall s s',
  inv s -> erunning s = false -> forallb engine_label sched = true -> run cfg_fixed s sched = Some s' ->
  driver_view s' = driver_view s.
Proof.
  induction sched as [|l r IH]; simpl; intros s s' I R L H.
  - injection H as <-. reflexivity.
  - apply andb_true_iff in L. destruct L as (L1 & L2).
    destruct (step cfg_fixed s l) as [s1|] eqn:E; [|discriminate].
    destruct (step_after_terminate _ _ _ I R L1 E) as (V & R1 & I1).
    rewrite <- V. eapply IH; eauto.
Qed.
