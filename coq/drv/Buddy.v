(** Executable model of the buddy allocator of one device:
    amd/driver/internal/devicebuddymemstate.go and buddystructures.go
    (4 KiB pages are hard-wired in the Go code), after the repair of
    allocateMultiplePages (the parent's merge bit is toggled for every block
    taken from a free list).  Definitions only.
    [None] = the Go code panics. *)
From Coq Require Import List NArith Bool Arith.
From RecordUpdate Require Import RecordSet.
Import ListNotations RecordSetNotations.
Open Scope N_scope.

Definition PAGE : N := 4096.

Record buddy := mkBuddy {
  b_base : N;                      (* initialAddress *)
  b_size : N;                      (* storageSize *)
  b_free : list (list N);          (* freeList[level], front first; level 0 = whole device *)
  b_split : list N;                (* bfBlockSplit: indices of the set bits *)
  b_merge : list N;                (* bfMergeList: indices of the set bits *)
  b_track : list (N * N);          (* blockTracking: page address -> tracker id *)
  b_trackers : list (N * (N * N)); (* tracker id -> (initialAddr, numOfPages left) *)
  b_next : N;                      (* fresh tracker ids (Go: pointer identity) *)
  b_blocks : list (N * N * N)      (* ghost, never read: allocated blocks (address, level, tracker id) *)
}.
#[export] Instance eta_buddy : Settable _ :=
  settable! mkBuddy <b_base; b_size; b_free; b_split; b_merge; b_track; b_trackers; b_next; b_blocks>.

(** smallest o >= from with 2^o >= x *)
Fixpoint order_from (fuel : nat) (o x : N) : N :=
  match fuel with
  | O => o
  | S f => if 2 ^ o <? x then order_from f (o + 1) x else o
  end.

(** setStorageSize + setInitialAddress *)
Definition binit (base size : N) : buddy :=
  let order := order_from 64 12 size - 12 in
  mkBuddy base size ([base] :: repeat [] (N.to_nat order)) [] [] [] [] 0 [].

Definition toggle (i : N) (l : list N) : list N :=
  if existsb (N.eqb i) l then filter (fun j => negb (j =? i)) l else i :: l.
Definition bit (i : N) (l : list N) : bool := existsb (N.eqb i) l.

Definition size_of_level (b : buddy) (lvl : N) : N := b_size b / 2 ^ lvl.
Definition index_in_level (b : buddy) (p lvl : N) : N := (p - b_base b) / size_of_level b lvl.
Definition index_of_block (b : buddy) (p lvl : N) : N := 2 ^ lvl + index_in_level b p lvl - 1.
Definition buddy_of (b : buddy) (p lvl : N) : N :=
  if N.even (index_in_level b p lvl) then p + size_of_level b lvl else p - size_of_level b lvl.

Definition get_level (b : buddy) (lvl : N) : list N := nth (N.to_nat lvl) (b_free b) [].
Fixpoint set_nth {A} (i : nat) (x : A) (l : list A) : list A :=
  match l, i with
  | [], _ => []
  | _ :: r, O => x :: r
  | a :: r, S i' => a :: set_nth i' x r
  end.
Definition set_level (b : buddy) (lvl : N) (l : list N) : buddy :=
  b <| b_free := set_nth (N.to_nat lvl) l (b_free b) |>.
Definition push_level (b : buddy) (lvl p : N) : buddy := set_level b lvl (get_level b lvl ++ [p]).

(** noAvailablePAddrs *)
Definition bempty (b : buddy) : bool := forallb (fun l => match l with [] => true | _ => false end) (b_free b).

(** search downwards from [lvl] for a non-empty free list *)
Fixpoint find_level (b : buddy) (fuel : nat) (i : N) : option N :=
  match get_level b i with
  | _ :: _ => Some i
  | [] => match fuel with
          | O => None
          | S f => if i =? 0 then None else find_level b f (i - 1)
          end
  end.

(** the splitting loop: for i < level { split bit, merge bit, i++, push buddy } *)
Fixpoint split_down (fuel : nat) (b : buddy) (block i level : N) : buddy :=
  match fuel with
  | O => b
  | S f => if i <? level then
             let b1 := b <| b_split := toggle (index_of_block b block i) (b_split b) |>
                         <| b_merge := toggle (index_of_block b block i) (b_merge b) |> in
             let b2 := push_level b1 (i + 1) (buddy_of b1 block (i + 1)) in
             split_down f b2 block (i + 1) level
           else b
  end.

Definition levels (b : buddy) : N := N.of_nat (length (b_free b)) - 1.

(** allocateMultiplePages *)
Definition balloc (n : N) (b : buddy) : option (list N * buddy) :=
  let order := order_from 64 12 (n * 4096) in
  if levels b <? order - 12 then None else
  let level := levels b - (order - 12) in
  match find_level b (length (b_free b)) level with
  | None => None
  | Some i =>
    match get_level b i with
    | [] => None
    | block :: rest =>
      let b1 := set_level b i rest in
      let b2 := if 0 <? i
                then b1 <| b_merge := toggle (index_of_block b1 block (i - 1)) (b_merge b1) |>
                else b1 in
      let b3 := split_down (length (b_free b)) b2 block i level in
      let pages := map (fun j => block + N.of_nat j * 4096) (seq 0 (N.to_nat n)) in
      Some (pages, b3 <| b_track := fold_left (fun t p => (p, b_next b3) :: filter (fun e => negb (fst e =? p)) t) pages (b_track b3) |>
                      <| b_trackers := (b_next b3, (block, n)) :: b_trackers b3 |>
                      <| b_next := b_next b3 + 1 |>
                      <| b_blocks := (block, level, b_next b3) :: b_blocks b3 |>)
    end
  end.

(** levelOfBlock *)
Fixpoint level_of_block (fuel : nat) (b : buddy) (p n : N) : N :=
  match fuel with
  | O => 0
  | S f => if n =? 0 then 0
           else if bit (index_of_block b p (n - 1)) (b_split b) then n
           else level_of_block f b p (n - 1)
  end.

(** removeByValue: removes the first occurrence *)
Fixpoint remove_first (x : N) (l : list N) : list N :=
  match l with [] => [] | y :: r => if y =? x then r else y :: remove_first x r end.

(** freeBlock *)
Fixpoint free_block (fuel : nat) (b : buddy) (p level : N) : buddy :=
  match fuel with
  | O => push_level b level p
  | S f =>
    if level =? 0 then push_level b 0 p
    else
      let idx := index_of_block b p (level - 1) in
      let b1 := b <| b_merge := toggle idx (b_merge b) |> in
      if negb (bit idx (b_merge b1)) then
        let b2 := b1 <| b_split := toggle idx (b_split b1) |> in
        let bud := buddy_of b2 p level in
        let b3 := set_level b2 level (remove_first bud (get_level b2 level)) in
        free_block f b3 (if bud <? p then bud else p) (level - 1)
      else push_level b1 level p
  end.

Fixpoint assoc {V} (k : N) (l : list (N * V)) : option V :=
  match l with [] => None | (k', v) :: r => if k =? k' then Some v else assoc k r end.

(** addSinglePAddr *)
Definition bfree_page (p : N) (b : buddy) : buddy :=
  match assoc p (b_track b) with
  | None => b
  | Some id =>
    let b1 := b <| b_track := filter (fun e => negb (fst e =? p)) (b_track b) |> in
    match assoc id (b_trackers b1) with
    | None => b1
    | Some (init0, cnt) =>
      let cnt1 := cnt - 1 in
      let b2 := b1 <| b_trackers := (id, (init0, cnt1)) :: filter (fun e => negb (fst e =? id)) (b_trackers b1) |> in
      if cnt1 =? 0 then
        let b3 := b2 <| b_blocks := filter (fun e => negb (snd e =? id)) (b_blocks b2) |> in
        free_block (length (b_free b3)) b3 init0 (level_of_block (length (b_free b3)) b3 init0 (levels b3))
      else b2
    end
  end.

(** * Histories on one device: allocate n pages / free the k-th buffer *)
Inductive bop := BAlloc (n : N) | BFree (pages : list N).

(** [live]: the pages handed out and not yet freed *)
Fixpoint brun (b : buddy) (live : list N) (ops : list bop) : option (buddy * list N * list (list N)) :=
  match ops with
  | [] => Some (b, live, [])
  | BAlloc n :: r =>
    if bempty b then None else
    match balloc n b with
    | None => None
    | Some (pages, b') =>
      match brun b' (pages ++ live) r with
      | None => None
      | Some (bf, lf, outs) => Some (bf, lf, pages :: outs)
      end
    end
  | BFree pages :: r =>
    let b' := fold_left (fun b p => bfree_page p b) pages b in
    match brun b' (filter (fun p => negb (existsb (N.eqb p) pages)) live) r with
    | None => None
    | Some (bf, lf, outs) => Some (bf, lf, [] :: outs)
    end
  end.

(** a page is handed out while it is still live *)
Fixpoint double_handout (b : buddy) (live : list N) (ops : list bop) : bool :=
  match ops with
  | [] => false
  | BAlloc n :: r =>
    if bempty b then false else
    match balloc n b with
    | None => false
    | Some (pages, b') => existsb (fun p => existsb (N.eqb p) live) pages || double_handout b' (pages ++ live) r
    end
  | BFree pages :: r =>
    double_handout (fold_left (fun b p => bfree_page p b) pages b)
                   (filter (fun p => negb (existsb (N.eqb p) pages)) live) r
  end.

(** * Correspondence: recorded (call, pages the implementation returned) *)
Record bcase := mkBCase { bk_base : N; bk_pages : N; bk_trace : list (bop * list N) }.

Fixpoint bfirst_diff (i : nat) (b : buddy) (tr : list (bop * list N)) : option nat :=
  match tr with
  | [] => None
  | (BAlloc n, got) :: r =>
    if bempty b then Some i else
    match balloc n b with
    | None => Some i
    | Some (pages, b') => if list_eq_dec N.eq_dec pages got then bfirst_diff (S i) b' r else Some i
    end
  | (BFree pages, _) :: r => bfirst_diff (S i) (fold_left (fun b p => bfree_page p b) pages b) r
  end.

Definition bcheck (c : bcase) : option nat := bfirst_diff 0 (binit (bk_base c) (bk_pages c * 4096)) (bk_trace c).

Fixpoint bmismatches_from (i : N) (cs : list bcase) : list (N * N) :=
  match cs with
  | [] => []
  | c :: r => match bcheck c with
              | None => bmismatches_from (i + 1) r
              | Some k => (i, N.of_nat k) :: bmismatches_from (i + 1) r
              end
  end.
Definition bmismatches := bmismatches_from 0.
