#!/bin/bash
# Build everything from files on disk: Coq development (full .vo build) and harness binaries.
cd "$(dirname "$0")"
set -e
python3 - <<'PY'
import sys
sys.path.insert(0, 'tools')
import vlib, glob, os
ok, log = vlib.coq_build()
print(log[-3000:])
if not ok:
    sys.exit(1)
for d in sorted(glob.glob('harness/cmd/*')):
    name = os.path.basename(d)
    tags = 'verif'
    ok, log, _ = vlib.go_build(name)
    print(name, 'ok' if ok else 'FAILED')
    if not ok:
        print(log[-3000:])
        sys.exit(1)
PY
