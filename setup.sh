#!/bin/bash
# Build everything from files on disk: Coq development (full .vo build) and harness binaries.
cd "$(dirname "$0")"
set -e
python3 - <<'PY'
import sys
sys.path.insert(0, 'tools')
import vlib, glob, os
props = open('tools/integrated.txt').read().split()
ok, log = vlib.coq_build(['props/%s.vo' % p for p in props])
print(log[-3000:])
if not ok:
    sys.exit(1)
for p in props:
    name = p.lower()
    if not os.path.isdir('harness/cmd/' + name):
        continue
    ok, log, _ = vlib.go_build(name)
    print(name, 'ok' if ok else 'FAILED')
    if not ok:
        print(log[-3000:])
        sys.exit(1)
PY
